"""Translator plugin for C06: the arithmetic core of `Result` -> Generated/C06Result.lean.

Re-emits, from the current AST of pyphysim/simulations/results.py, the *effect on
the attribute record* of

  Result.update            (nested per-type functions, dispatch, `num_updates += 1`)
  Result._assert_can_merge + Result.merge
  Result.get_result / get_result_mean / get_result_var

as Lean functions over the record `Res` / `Obs` / `Ty` / `GetOut` of the hand model
(Model/C06.lean).  Properties/C06.lean proves them equal to the hand model's
`update` / `merge` / `getResult` / `getMean` / `getVar` (bridge theorems), so a
semantic edit of the source breaks either the translation (outside the fragment)
or a bridge theorem.

How: every function is *symbolically executed* once per result type (the object's
type code is a concrete value during the run, so a dictionary dispatch, an
if/elif ladder and extracted private methods are the same thing), on a store
`attribute -> Lean term over the initial record and the parameters`.  What is
emitted is the normal form "which attribute ends up with which value, which
exception is raised on which condition, in which state": statement order only
matters through data flow and through what has been stored when an exception is
raised.  Private helpers, nested functions, properties and other methods of the
class called through `self` are inlined.

Fragment (anything else raises TranslateError => tie broken):
  statements : `self._a = e`, `self._a += e`, `x = e`, `x += e`, `self._l.append(e)`,
               `self._l.extend(e)`, `self._value[int(x)] += 1`, `if c: … [else: …]`,
               `assert c[, msg]`, `raise E(…)`, `return [e]`, nested `def`, `pass`,
               calls of nested functions / methods of the class (inlined),
               `d = {Result.T: f, …}`, `d.get(self._update_type_code, g)(args)`, `d[code](args)`
  expressions: parameters, locals, `self._a`, `other._a`, properties, int literals, `None`,
               `+ - *`, `/` (raises ZeroDivisionError when the divisor is 0), `e**2`, unary `-`,
               `len(e)`, `int(x)` after `assert isinstance(x, (int, np.integer))`, `cast(T, e)`,
               `a if c else b`, string building (opaque)
  conditions : `==` / `!=` of numbers, names, type codes; `in` / `not in` a literal tuple / list / set;
               `is None` / `is not None`;
               bools by truthiness / `is True` / `is False` / `== True`; `not`, `and`, `or`;
               `isinstance(other, self.__class__)` (true: `other` is a Result);
               `isinstance(x, (int, np.integer))`
Semantic conventions (the same as the hand model's, stated in Model/C06.lean):
  `_value` is the field `value : Rat` unless the object is a CHOICE result, then `counts : List Nat`;
  a CHOICE observation "is an int" iff its denominator is 1; `a[i] += 1` is `pyIndex` + `incr`
  (IndexError outside -len..len-1); `array += array` is only translated under a checked
  `len(a) == len(b)` (numpy broadcasting is not modelled); `int array / number` yields the list of
  quotients, and ZeroDivisionError stands for numpy's non-finite result + warning when the number is 0
  and the array is not empty; `other` is an object different from `self`.
  Numpy scalars: `if <x is a numpy scalar or a 0-d array>: A else: B` (any and / or / not combination of
  isinstance(x, np.generic | np.ndarray | a tuple of them), `x.ndim == 0`, `np.ndim(x) == 0` that is true exactly
  for numpy scalars and 0-d arrays and cannot raise) is executed on both paths — on A `x.item()` is the same
  exact value, now a Python number; on B `x` is known to be a Python number — and translated only if both paths
  do the same.  A parameter of `update` that reaches arithmetic, an attribute or a list before such a conversion
  makes the emitted flag `updateConvertsNumpy` false (the sums would be computed in a narrow numpy type).
  Any other test built from the same numpy type atoms that cannot raise (e.g. `isinstance(x, np.ndarray)`) is not
  a property of the value either: both paths are executed and must do the same.  Identity-on-value calls only:
  `x.copy()` where the test excludes Python numbers, `copy.copy(x)` / `copy.deepcopy(x)` (same kind of object),
  `np.array(x)` / `np.copy(x)` / `np.asarray(x)` (a numpy object again: counts as unconverted unless x is known to
  be one).  `x.item()` only under the conversion test; `x.astype(…)`, `x * 1`, … are what they are.
  Static helpers (`Result._x(…)` / `self._x(…)` of a @staticmethod) see neither `self` nor the caller's names.
"""
import ast
import copy
import os

from harness.translate import HEADER, TranslateError, parse_file, strip_doc

FILE = 'pyphysim/simulations/results.py'
CLASS = 'Result'

# python attribute -> (field of Res, type)       (`_value` is typed by the object's result type)
FIELDS = {
    '_total': ('total', 'num'), '_result_sum': ('rsum', 'num'), '_result_squared_sum': ('rsq', 'num'),
    'num_updates': ('n', 'nat'), '_value_list': ('vlist', 'list'), '_total_list': ('tlist', 'list'),
    '_accumulate_values_bool': ('acc', 'bool'), 'name': ('name', 'name'), '_update_type_code': ('ty', 'ty'),
}
MUTABLE = ('value', 'counts', 'total', 'rsum', 'rsq', 'n', 'vlist', 'tlist')   # emission order = structure order
FIELD_TYPE = {'value': 'num', 'counts': 'arr', 'total': 'num', 'rsum': 'num', 'rsq': 'num', 'n': 'nat',
              'vlist': 'list', 'tlist': 'list'}
TYPES = (('SUMTYPE', 'sum'), ('RATIOTYPE', 'ratio'), ('MISCTYPE', 'misc'), ('CHOICETYPE', 'choice'))
PYERR = ('ValueError', 'TypeError', 'IndexError', 'AssertionError', 'ZeroDivisionError', 'AttributeError',
         'KeyError', 'RuntimeError')
NUMERIC = ('num', 'nat', 'lit')


class V:
    """a symbolic value: type tag + Lean term (or a Python-side payload for concrete values)"""

    def __init__(self, ty, tx=None, py=None, raw=False):
        self.ty, self.tx, self.py = ty, tx, py
        self.raw = raw        # a parameter as given by the caller: it may still be a numpy scalar / 0-d array

    def key(self):
        if self.ty in ('lit', 'tyc', 'none', 'boolc', 'str'):
            return (self.ty, self.tx, repr(self.py), self.raw)
        if self.ty == 'func':
            return (self.ty, id(self.py[0]), self.py[1].var if isinstance(self.py[1], Obj) else self.py[1], self.py[2])
        if self.ty == 'dict':
            return (self.ty, tuple(sorted((k, v.key()) for k, v in self.py.items())))
        if self.ty == 'obj':
            return (self.ty, self.py.var)
        return (self.ty, self.tx, self.raw)


class Obj:
    """`self` / `other`: a record variable of the generated function"""

    def __init__(self, var, mutable, ty):
        self.var, self.mutable, self.ty = var, mutable, ty      # ty: concrete result type or None (unknown)


class State:
    def __init__(self, store, env, facts, objs, frames=()):
        self.store, self.env, self.facts, self.objs = store, env, facts, objs
        self.frames = frames        # (env, objs) of the suspended enclosing calls (closures of nested functions)

    def fork(self):
        return State(dict(self.store), dict(self.env), dict(self.facts),
                     {k: Obj(o.var, o.mutable, o.ty) for k, o in self.objs.items()}, self.frames)


class Leaf:
    def __init__(self, kind, st, val=None):
        self.kind, self.st, self.val = kind, st, val     # kind: fall | raise (val = exception name) | return (val = V | None)


class Node:
    def __init__(self, kind, a, b, **kw):
        self.kind, self.a, self.b = kind, a, b           # kind: if (cond) | opt (tx, var) | idx (len, idx, var)
        self.__dict__.update(kw)


def fail(msg, node=None):
    where = ' (line %d)' % node.lineno if node is not None and hasattr(node, 'lineno') else ''
    raise TranslateError('C06Result: ' + msg + where)


def paren(t):
    if t.replace('.', '').replace('_', '').isalnum():
        return t
    if t.startswith('(') and t.endswith(')'):
        d = 0
        for k, ch in enumerate(t):
            d += ch == '('
            d -= ch == ')'
            if d == 0 and k < len(t) - 1:
                break
        else:
            return t
    return '(%s)' % t


class _NotNp(Exception):
    pass


class _NpRaises(Exception):
    pass


def _np_eval(e, x, kind):
    """truth value of a test built from isinstance(x, np.generic | np.ndarray | tuple of them), `x.ndim == 0`,
    `np.ndim(x) == 0`, and / or / not, for x a Python number / None ('py'), a numpy scalar ('generic'), a 0-d array
    ('arr0'); raises _NotNp for anything else and for a test that would raise (x.ndim of a Python number)"""
    if isinstance(e, ast.BoolOp):
        isand = isinstance(e.op, ast.And)
        for v in e.values:                      # short circuit, left to right
            r = _np_eval(v, x, kind)
            if r != isand:
                return r
        return isand
    if isinstance(e, ast.UnaryOp) and isinstance(e.op, ast.Not):
        return not _np_eval(e.operand, x, kind)
    if isinstance(e, ast.Call) and ast.unparse(e.func) == 'isinstance' and len(e.args) == 2 and not e.keywords \
            and isinstance(e.args[0], ast.Name) and e.args[0].id == x:
        ts = e.args[1].elts if isinstance(e.args[1], ast.Tuple) else [e.args[1]]
        names = [ast.unparse(t) for t in ts]
        if not names or any(n not in ('np.generic', 'np.ndarray') for n in names):
            raise _NotNp()
        return (kind == 'generic' and 'np.generic' in names) or (kind == 'arr0' and 'np.ndarray' in names)
    if isinstance(e, ast.Compare) and len(e.ops) == 1 and isinstance(e.ops[0], ast.Eq) \
            and isinstance(e.comparators[0], ast.Constant) and e.comparators[0].value == 0 \
            and not isinstance(e.comparators[0].value, bool):
        l = ast.unparse(e.left)
        if l == '%s.ndim' % x:
            if kind == 'py':
                raise _NpRaises()               # AttributeError on a Python number
            return True
        if l == 'np.ndim(%s)' % x:
            return True
    raise _NotNp()


def np_scalar_test(e):
    """the variable x if `e` is true exactly when x is a numpy scalar or a 0-d array (and never raises)"""
    names = {n.id for n in ast.walk(e) if isinstance(n, ast.Name)} - {'isinstance', 'np'}
    if len(names) != 1:
        return None
    x = names.pop()
    try:
        ok = (_np_eval(e, x, 'py') is False and _np_eval(e, x, 'generic') is True and _np_eval(e, x, 'arr0') is True)
    except (_NotNp, _NpRaises):
        return None
    return x if ok else None


def np_type_test(e):
    """the variable x if `e` is any test built from the numpy type atoms of `_np_eval` over the single name x"""
    names = {n.id for n in ast.walk(e) if isinstance(n, ast.Name)} - {'isinstance', 'np'}
    if len(names) != 1:
        return None
    x = names.pop()
    for kind in ('py', 'generic', 'arr0'):
        try:
            _np_eval(e, x, kind)
        except _NpRaises:
            pass
        except _NotNp:
            return None
    return x


class Exec:
    def __init__(self, cls, codes):
        self.cls = cls
        self.codes = codes          # 'SUMTYPE' -> int
        self.stack = []
        self.counter = 0
        self.raw_used = set()      # parameters used in arithmetic / stored before the numpy-scalar conversion

    # ------------------------------------------------------------------ class members
    def member(self, name):
        found = [n for n in self.cls.body if isinstance(n, ast.FunctionDef) and n.name == name]
        if not found:
            return None
        if len(found) > 1 and not all(n.decorator_list for n in found):
            fail('method %s defined %d times' % (name, len(found)))
        return found

    def method(self, name):
        found = self.member(name)
        if found is None:
            return None
        if len(found) != 1 or [ast.unparse(d) for d in found[0].decorator_list] not in ([], ['staticmethod']):
            fail('method %s is decorated / overloaded' % name)
        return found[0]

    def prop(self, name):
        found = self.member(name)
        if found is None:
            return None
        if not any(n.decorator_list for n in found):
            return None
        getters = [n for n in found if [ast.unparse(d) for d in n.decorator_list] == ['property']]
        if len(getters) != 1 or len(found) != 1:
            fail('attribute %s: not a plain read-only property' % name)
        return getters[0]

    def fresh(self, base):
        self.counter += 1
        return base if self.counter == 1 else '%s%d' % (base, self.counter)

    # ------------------------------------------------------------------ numbers
    def as_num(self, v, node=None):
        if v.raw:
            self.raw_used.add(v.tx)
        if v.ty == 'num':
            return v.tx
        if v.ty == 'nat':
            return '(%s : Rat)' % v.tx
        if v.ty == 'lit':
            return '(%d : Rat)' % v.py if v.py >= 0 else '(-%d : Rat)' % -v.py
        fail('a number is required here, found %s' % v.ty, node)

    def as_nat(self, v, node=None):
        if v.ty == 'nat':
            return v.tx
        if v.ty == 'lit' and v.py >= 0:
            return str(v.py)
        fail('a count is required here, found %s' % v.ty, node)

    def arith(self, op, l, r, st, guards, node):
        if isinstance(op, ast.Div):
            if l.ty == 'arr' and r.ty in NUMERIC:
                d = self.as_num(r, node)
                self.guard(st, guards, '%s = 0 ∧ %s ≠ []' % (d, l.tx), 'ZeroDivisionError')
                return V('ratarr', '%s.map (fun (c : Nat) => (c : Rat) / %s)' % (paren(l.tx), d))
            if l.ty in NUMERIC and r.ty in NUMERIC:
                if r.ty == 'lit':
                    if r.py == 0:
                        fail('division by the literal 0', node)
                else:
                    self.guard(st, guards, '%s = 0' % (r.tx if r.ty == 'nat' else self.as_num(r, node)),
                               'ZeroDivisionError')
                return V('num', '%s / %s' % (paren(self.as_num(l, node)), paren(self.as_num(r, node))))
            fail('unsupported division %s / %s' % (l.ty, r.ty), node)
        if isinstance(op, ast.Add) and l.ty == 'list' and r.ty == 'list':
            return V('list', '%s ++ %s' % (paren(l.tx), paren(r.tx)))
        if l.ty not in NUMERIC or r.ty not in NUMERIC:
            fail('unsupported operands %s, %s of %s' % (l.ty, r.ty, type(op).__name__), node)
        sym = {ast.Add: '+', ast.Sub: '-', ast.Mult: '*'}.get(type(op))
        if sym is None:
            fail('unsupported operator %s' % type(op).__name__, node)
        if l.ty == 'lit' and r.ty == 'lit':
            return V('lit', py={'+': l.py + r.py, '-': l.py - r.py, '*': l.py * r.py}[sym])
        if l.ty in ('nat', 'lit') and r.ty in ('nat', 'lit') and sym in '+*':
            return V('nat', '%s %s %s' % (paren(self.as_nat(l, node)), sym, paren(self.as_nat(r, node))))
        return V('num', '%s %s %s' % (paren(self.as_num(l, node)), sym, paren(self.as_num(r, node))))

    def guard(self, st, guards, prop, exc):
        """an implicit exception of the expression being evaluated (checked before the statement's effect)"""
        if st.facts.get(prop) is False or any(g[0] == prop for g in guards):
            return
        if st.facts.get(prop) is True:
            fail('expression always raises %s' % exc)
        guards.append((prop, exc))

    # ------------------------------------------------------------------ attribute access
    def field_of(self, obj, attr, node):
        if attr == '_value':
            if obj.ty is None:
                fail('the kind of %s._value is not determined here (no type check passed)' % obj.var, node)
            return ('counts', 'arr') if obj.ty == 'choice' else ('value', 'num')
        if attr in FIELDS:
            return FIELDS[attr]
        return None

    def read_attr(self, e, st, guards):
        base = self.eval(e.value, st, guards)
        if base.ty == 'cls' and e.attr in self.codes:
            return V('tyc', py=self.codes[e.attr])
        if base.ty == 'cls' and self.member(e.attr) is not None:
            m = self.method(e.attr)
            if not m.decorator_list:
                fail('instance method called through the class: %s' % ast.unparse(e), e)
            return V('func', py=(m, None, 'static'))
        if base.ty == 'str' and e.attr == 'format':
            return V('strfn')
        if base.ty != 'obj':
            fail('unsupported attribute access %s' % ast.unparse(e), e)
        obj = base.py
        if e.attr == '__class__':
            return V('cls')
        fld = self.field_of(obj, e.attr, e)
        if fld is not None:
            name, ty = fld
            if ty == 'ty':
                if obj.ty is not None:
                    return V('tyc', py=self.codes[dict((b, a) for a, b in TYPES)[obj.ty]])
                return V('tysym', '%s.ty' % obj.var)
            if obj.mutable and name in st.store:
                return st.store[name]
            return V(ty, '%s.%s' % (obj.var, name))
        p = self.prop(e.attr)
        if p is not None:
            return self.call_value(p, obj, [], {}, st, guards, e)
        if self.method(e.attr) is not None:
            m = self.method(e.attr)
            if m.decorator_list:                 # a static helper called through an instance
                return V('func', py=(m, None, 'static'))
            return V('func', py=(m, obj, None))
        fail('unknown attribute %s' % ast.unparse(e), e)

    # ------------------------------------------------------------------ expressions
    def eval(self, e, st, guards):
        if isinstance(e, ast.Constant):
            if e.value is None:
                return V('none')
            if isinstance(e.value, bool):
                return V('boolc', py=e.value)
            if isinstance(e.value, int):
                return V('lit', py=e.value)
            if isinstance(e.value, float) and e.value == int(e.value):
                return V('lit', py=int(e.value))
            if isinstance(e.value, str):
                return V('str', py=e.value)
            fail('unsupported literal %r' % (e.value,), e)
        if isinstance(e, ast.JoinedStr):
            return V('str', py=None)
        if isinstance(e, ast.Name):
            if e.id in st.env:
                v = st.env[e.id]
                if v.ty == 'undef':
                    fail('%s has different kinds of value on different paths' % e.id, e)
                if v.ty == 'optnum' and 'opt:' + v.tx in st.facts:
                    return st.facts['opt:' + v.tx]
                return v
            if e.id in st.objs:
                return V('obj', py=st.objs[e.id])
            if e.id == CLASS:
                return V('cls')
            fail('unknown name %s' % e.id, e)
        if isinstance(e, ast.Attribute):
            return self.read_attr(e, st, guards)
        if isinstance(e, ast.UnaryOp) and isinstance(e.op, ast.USub):
            v = self.eval(e.operand, st, guards)
            if v.ty == 'lit':
                return V('lit', py=-v.py)
            return V('num', '-%s' % paren(self.as_num(v, e)))
        if isinstance(e, ast.BinOp):
            if isinstance(e.op, ast.Pow):
                if not (isinstance(e.right, ast.Constant) and e.right.value == 2 and not isinstance(e.right.value, bool)):
                    fail('unsupported power (only **2)', e)
                v = self.eval(e.left, st, guards)
                return self.arith(ast.Mult(), v, v, st, guards, e)
            if isinstance(e.op, ast.Mod):
                l = self.eval(e.left, st, guards)
                if l.ty == 'str':
                    self.pure_args([e.right])
                    return V('str', py=None)
            l = self.eval(e.left, st, guards)
            r = self.eval(e.right, st, guards)
            if l.ty == 'str' and r.ty == 'str' and isinstance(e.op, ast.Add):
                return V('str', py=None)
            return self.arith(e.op, l, r, st, guards, e)
        if isinstance(e, ast.IfExp):
            c = self.cond(e.test, st)
            if c[0] == 'const':
                return self.eval(e.body if c[1] else e.orelse, st, guards)
            if c[0] != 'prop':
                fail('unsupported conditional expression', e)
            g1, g2 = [], []
            a, b = self.eval(e.body, st, g1), self.eval(e.orelse, st, g2)
            if g1 or g2:
                fail('conditional expression whose branch may raise', e)
            return self.ite(c[1], a, b, e)
        if isinstance(e, ast.Dict):
            d = {}
            for k, v in zip(e.keys, e.values):
                if k is None:
                    fail('dict unpacking', e)
                kv = self.eval(k, st, guards)
                if kv.ty != 'tyc':
                    fail('dispatch dictionary key is not a type code', k)
                if kv.py in d:
                    fail('dispatch dictionary lists a type code twice', k)
                d[kv.py] = self.eval(v, st, guards)
            return V('dict', py=d)
        if isinstance(e, ast.Subscript):
            base = self.eval(e.value, st, guards)
            if base.ty == 'dict':
                k = self.eval(e.slice, st, guards)
                if k.ty != 'tyc':
                    fail('dispatch dictionary indexed by something that is not a concrete type code', e)
                if k.py not in base.py:
                    return V('raises', py='KeyError')
                return base.py[k.py]
            fail('unsupported subscript %s' % ast.unparse(e), e)
        if isinstance(e, ast.Call):
            return self.eval_call(e, st, guards)
        fail('unsupported expression %s' % ast.unparse(e)[:80], e)

    def ite(self, prop, a, b, node):
        if a.key() == b.key():
            return a
        if a.ty in NUMERIC and b.ty in NUMERIC and not (a.ty == b.ty == 'nat'):
            return V('num', 'if %s then %s else %s' % (prop, self.as_num(a), self.as_num(b)))
        if a.ty == b.ty and a.ty in ('nat', 'arr', 'list', 'ratarr'):
            return V(a.ty, 'if %s then %s else %s' % (prop, a.tx, b.tx))
        return V('undef')

    def pure_args(self, args):
        for a in args:
            for n in ast.walk(a):
                if isinstance(n, ast.Call) and not (isinstance(n.func, ast.Attribute) and n.func.attr == 'format'):
                    fail('call inside a message / exception argument: %s' % ast.unparse(n)[:60], n)
                if isinstance(n, (ast.NamedExpr, ast.Await, ast.Yield, ast.YieldFrom, ast.Lambda)):
                    fail('unsupported construct inside a message', n)

    def eval_call(self, e, st, guards):
        f = e.func
        if isinstance(f, ast.Attribute) and f.attr == 'item' and not e.args and not e.keywords:
            base = self.eval(f.value, st, guards)
            if base.ty in ('num', 'optnum', 'none') and st.facts.get('np:%s' % base.tx) is True:
                # the equivalent Python number: the same exact value
                return V(base.ty, base.tx, base.py, raw=False)
            fail('x.item() outside `if <x is a numpy scalar / 0-d array>`', e)
        if isinstance(f, ast.Attribute) and f.attr == 'copy' and not e.args and not e.keywords \
                and not (isinstance(f.value, ast.Name) and f.value.id in ('copy', 'np')):
            base = self.eval(f.value, st, guards)
            if base.ty in ('num', 'optnum', 'none') and (st.facts.get('np:%s' % base.tx) is True
                                                         or st.facts.get('npobj:%s' % base.tx) is True):
                return base                 # a copy of a numpy object: the same value, the same kind of object
            fail('x.copy() where x may be a Python number', e)
        if ast.unparse(f) in ('copy.copy', 'copy.deepcopy', 'np.copy', 'np.array', 'np.asarray') \
                and len(e.args) == 1 and not e.keywords and 'copy' not in st.env and 'np' not in st.env:
            base = self.eval(e.args[0], st, guards)
            if base.ty in ('num', 'optnum', 'none'):
                if ast.unparse(f).startswith('copy.') or st.facts.get('npobj:%s' % base.tx) is True:
                    return base             # the same value, the same kind of object
                return V(base.ty, base.tx, base.py, raw=True)      # the same value, as a numpy object again
            fail('copy of %s' % base.ty, e)
        if isinstance(f, ast.Name) and f.id not in st.env:
            if f.id == 'cast' and len(e.args) == 2 and not e.keywords:
                return self.eval(e.args[1], st, guards)
            if f.id == 'len' and len(e.args) == 1 and not e.keywords:
                v = self.eval(e.args[0], st, guards)
                if v.ty not in ('arr', 'list'):
                    fail('len() of %s' % v.ty, e)
                return V('nat', '%s.length' % paren(v.tx))
            if f.id == 'int' and len(e.args) == 1 and not e.keywords:
                v = self.eval(e.args[0], st, guards)
                if v.ty == 'lit':
                    return v
                if v.ty == 'num' and st.facts.get('%s.den = 1' % paren(v.tx)) is True:
                    if v.raw:
                        self.raw_used.add(v.tx)
                    return V('int', '%s.num' % paren(v.tx))
                fail('int(x) is only translated after `assert isinstance(x, (int, np.integer))`', e)
            fail('unsupported call %s' % ast.unparse(e)[:60], e)
        fn = self.eval(f, st, guards)
        if fn.ty == 'strfn':
            self.pure_args(e.args + [k.value for k in e.keywords])
            return V('str', py=None)
        if fn.ty == 'raises':
            return fn
        if fn.ty == 'dictget':
            fail('unsupported use of dict.get', e)
        if fn.ty != 'func':
            fail('unsupported call %s' % ast.unparse(e)[:60], e)
        node, obj, depth = fn.py
        args = [self.eval(a, st, guards) for a in e.args]
        if any(isinstance(a, ast.Starred) for a in e.args) or any(k.arg is None for k in e.keywords):
            fail('star arguments', e)
        kw = {k.arg: self.eval(k.value, st, guards) for k in e.keywords}
        return self.call_value(node, obj, args, kw, st, guards, e, depth)

    # ------------------------------------------------------------------ calls
    def bind(self, fn, obj, args, kw, st, node, depth=None):
        """environment of the callee: a nested function sees the names of the function it was defined in
        (its values at the time of the call), a method only `self`"""
        a = fn.args
        if a.kwonlyargs or a.kwarg or a.posonlyargs:
            fail('unsupported signature of %s' % fn.name, node)
        params = [p.arg for p in a.args]
        new = st.fork()
        new.frames = tuple(st.frames) + ((dict(st.env), dict(st.objs)),)
        defaults = a.defaults
        if obj is not None:
            if not params:
                fail('method %s without self' % fn.name, node)
            new.env = {}
            new.objs = {params[0]: obj}
            params = params[1:]
        elif depth == 'static':
            new.env, new.objs = {}, {}          # a static method sees neither `self` nor the caller's names
        elif depth is not None and depth < len(st.frames):
            # defined in an enclosing (suspended) call: its names, not the caller's
            new.env, new.objs = dict(st.frames[depth][0]), dict(st.frames[depth][1])
        elif depth is not None and depth > len(st.frames):
            fail('nested function %s called outside the function that defines it' % fn.name, node)
        if len(args) > len(params) and a.vararg is None:
            fail('too many arguments for %s' % fn.name, node)
        bound = {}
        for p_, v in zip(params, args):
            bound[p_] = v
        for k, v in kw.items():
            if k not in params or k in bound:
                fail('bad keyword argument %s for %s' % (k, fn.name), node)
            bound[k] = v
        dflt = dict(zip(params[len(params) - len(defaults):], defaults))
        for p_ in params:
            if p_ not in bound:
                if p_ not in dflt:
                    fail('missing argument %s of %s' % (p_, fn.name), node)
                bound[p_] = self.eval(dflt[p_], st, [])
        if a.vararg is not None:
            for n in ast.walk(ast.Module(body=fn.body, type_ignores=[])):
                if isinstance(n, ast.Name) and n.id == a.vararg.arg:
                    fail('%s uses its *%s' % (fn.name, a.vararg.arg), node)
        for p_, v in bound.items():
            new.objs.pop(p_, None)
            if v.ty == 'obj':
                new.objs[p_] = v.py
                new.env.pop(p_, None)
            else:
                new.env[p_] = v
        return new

    def call_tree(self, fn, obj, args, kw, st, node, depth=None):
        """execute the body of `fn`; leaves are raise / return"""
        if fn.decorator_list and [ast.unparse(d) for d in fn.decorator_list] not in (['property'], ['staticmethod']):
            fail('%s is decorated' % fn.name, node)
        if any(f is fn for f in self.stack) or len(self.stack) > 6:
            fail('recursive / too deeply nested call of %s' % fn.name, node)
        inner = self.bind(fn, obj, args, kw, st, node, depth)
        self.stack.append(fn)
        try:
            t = self.block(strip_doc(fn.body), inner)
        finally:
            self.stack.pop()
        return self.map_leaves(t, lambda l: Leaf('return', l.st, None) if l.kind == 'fall' else l)

    def call_value(self, fn, obj, args, kw, st, guards, node, depth=None):
        """a call inside an expression: the callee must not write, its raises become guards"""
        t = self.call_tree(fn, obj, args, kw, st, node, depth)
        while True:
            if isinstance(t, Leaf):
                if t.kind != 'return' or t.val is None:
                    fail('%s used as a value does not return one on every path' % fn.name, node)
                if self.store_text(t.st) != self.store_text(st):
                    fail('%s used as a value writes attributes' % fn.name, node)
                return t.val
            if t.kind != 'if':
                fail('%s used as a value branches on something else than a simple test' % fn.name, node)
            if isinstance(t.a, Leaf) and t.a.kind == 'raise' and self.store_text(t.a.st) == self.store_text(st):
                self.guard(st, guards, t.cond, t.a.val)
                t = t.b
            elif isinstance(t.b, Leaf) and t.b.kind == 'raise' and self.store_text(t.b.st) == self.store_text(st):
                self.guard(st, guards, '¬ (%s)' % t.cond, t.b.val)
                t = t.a
            else:
                fail('%s used as a value has more than one returning path' % fn.name, node)

    @staticmethod
    def store_text(st):
        return tuple((k, st.store[k].ty, st.store[k].tx) for k in MUTABLE)

    # ------------------------------------------------------------------ conditions
    def cond(self, e, st):
        """('const', bool) | ('prop', lean Prop text) | ('isnone', V, polarity)"""
        x = np_type_test(e)
        if x is not None and x in st.env and st.env[x].ty in ('num', 'optnum', 'none'):
            fail('numpy type test outside the test of an `if` statement: %s' % ast.unparse(e)[:60], e)
        if isinstance(e, ast.UnaryOp) and isinstance(e.op, ast.Not):
            c = self.cond(e.operand, st)
            return self.negate(c)
        if isinstance(e, ast.BoolOp):
            cs = [self.cond(v, st) for v in e.values]
            isand = isinstance(e.op, ast.And)
            out = []
            for c in cs:
                if c[0] == 'const':
                    if c[1] != isand:
                        return ('const', not isand)
                    continue
                if c[0] != 'prop':
                    fail('`is None` inside and/or', e)
                out.append(c[1])
            if not out:
                return ('const', isand)
            return self.known(st, (' ∧ ' if isand else ' ∨ ').join('(%s)' % o for o in out) if len(out) > 1 else out[0])
        if isinstance(e, ast.Compare):
            if len(e.ops) != 1:
                fail('chained comparison', e)
            op, l, r = e.ops[0], e.left, e.comparators[0]
            g = []
            if isinstance(op, (ast.In, ast.NotIn)) and isinstance(r, (ast.Tuple, ast.List, ast.Set)):
                # membership in a literal collection = disjunction of equalities
                lv = self.eval(l, st, g)
                cs = [self.equal(lv, self.eval(x, st, g), st, e) for x in r.elts]
                if g:
                    fail('a test that may raise', e)
                if any(c == ('const', True) for c in cs):
                    c = ('const', True)
                else:
                    props = [c[1] for c in cs if c[0] == 'prop']
                    c = ('const', False) if not props else self.known(
                        st, props[0] if len(props) == 1 else ' ∨ '.join('(%s)' % q for q in props))
                return c if isinstance(op, ast.In) else self.negate(c)
            lv, rv = self.eval(l, st, g), self.eval(r, st, g)
            if g:
                fail('a test that may raise', e)
            if isinstance(op, (ast.Is, ast.IsNot)):
                pos = isinstance(op, ast.Is)
                if lv.ty in ('none', 'boolc') and rv.ty not in ('none', 'boolc'):
                    lv, rv = rv, lv
                if rv.ty == 'none':
                    if lv.ty == 'none':
                        return ('const', pos)
                    if lv.ty == 'optnum':
                        return ('isnone', lv, pos)
                    if lv.ty in ('num', 'nat', 'lit', 'arr', 'list', 'bool', 'str'):
                        return ('const', not pos)
                    fail('`is None` of %s' % lv.ty, e)
                if rv.ty == 'boolc' and lv.ty == 'bool':
                    c = self.known(st, '%s = true' % lv.tx)
                    c = c if rv.py else self.negate(c)
                    return c if pos else self.negate(c)
                if rv.ty == 'boolc' and lv.ty == 'boolc':
                    return ('const', (lv.py == rv.py) == pos)
                fail('unsupported identity test %s' % ast.unparse(e), e)
            if isinstance(op, (ast.Eq, ast.NotEq)):
                c = self.equal(lv, rv, st, e)
                return c if isinstance(op, ast.Eq) else self.negate(c)
            fail('unsupported comparison %s' % ast.unparse(e), e)
        if isinstance(e, ast.Call) and isinstance(e.func, ast.Name) and e.func.id == 'isinstance' \
                and len(e.args) == 2 and not e.keywords:
            g = []
            x = self.eval(e.args[0], st, g)
            what = ast.unparse(e.args[1])
            if x.ty == 'obj' and what in ('self.__class__', CLASS, 'type(self)'):
                return ('const', True)       # `other` is a Result: typing precondition of the generated function
            ints = sorted(ast.unparse(t) for t in e.args[1].elts) if isinstance(e.args[1], ast.Tuple) else None
            if x.ty == 'num' and ints == ['int', 'np.integer'] and not g:
                return self.known(st, '%s.den = 1' % paren(x.tx))
            fail('unsupported isinstance test %s' % ast.unparse(e), e)
        g = []
        v = self.eval(e, st, g)
        if g:
            fail('a test that may raise', e)
        if v.ty == 'bool':
            return self.known(st, '%s = true' % v.tx)
        if v.ty == 'boolc':
            return ('const', v.py)
        fail('truth value of %s (%s)' % (v.ty, ast.unparse(e)[:60]), e)

    def equal(self, lv, rv, st, node):
        if lv.ty == 'tyc' and rv.ty == 'tyc':
            return ('const', lv.py == rv.py)
        if 'tysym' in (lv.ty, rv.ty) and {lv.ty, rv.ty} <= {'tysym', 'tyc'}:
            if lv.ty == 'tyc':
                lv, rv = rv, lv
            if rv.ty == 'tysym':
                fail('comparison of two unknown type codes', node)
            name = [b for a, b in TYPES if self.codes[a] == rv.py][0]
            return self.known(st, '%s = .%s' % (lv.tx, name))
        if lv.ty == 'name' and rv.ty == 'name':
            return self.known(st, '%s = %s' % (lv.tx, rv.tx))
        if lv.ty in NUMERIC and rv.ty in NUMERIC:
            if lv.ty == 'lit' and rv.ty == 'lit':
                return ('const', lv.py == rv.py)
            if lv.ty in ('nat', 'lit') and rv.ty in ('nat', 'lit'):
                return self.known(st, '%s = %s' % (self.as_nat(lv, node), self.as_nat(rv, node)))
            return self.known(st, '%s = %s' % (self.as_num(lv, node), self.as_num(rv, node)))
        if lv.ty == 'bool' and rv.ty == 'boolc':
            c = self.known(st, '%s = true' % lv.tx)
            return c if rv.py else self.negate(c)
        if lv.ty == 'bool' and rv.ty == 'bool':
            return self.known(st, '%s = %s' % (lv.tx, rv.tx))
        fail('unsupported equality test of %s and %s' % (lv.ty, rv.ty), node)

    def known(self, st, prop):
        if prop in st.facts:
            return ('const', st.facts[prop])
        return ('prop', prop)

    @staticmethod
    def negate(c):
        if c[0] == 'const':
            return ('const', not c[1])
        if c[0] == 'isnone':
            return ('isnone', c[1], not c[2])
        p = c[1]
        if p.startswith('¬ (') and p.endswith(')') and Exec.balanced(p[3:-1]):
            return ('prop', p[3:-1])
        return ('prop', '¬ (%s)' % p)

    @staticmethod
    def balanced(s):
        d = 0
        for ch in s:
            d += ch == '('
            d -= ch == ')'
            if d < 0:
                return False
        return d == 0

    def assume(self, st, prop, val):
        """record a path fact (and what it tells about the operands)"""
        if prop.startswith('¬ (') and prop.endswith(')') and self.balanced(prop[3:-1]):
            return self.assume(st, prop[3:-1], not val)
        st.facts[prop] = val
        if val:
            for o in st.objs.values():
                # `other.ty = .T` where T is self's (concrete) type: other._value has the same kind
                for _, name in TYPES:
                    if prop == '%s.ty = .%s' % (o.var, name):
                        o.ty = name
        return st

    def refine_opt(self, st, v, new):
        # a fact (it survives the return from an inlined helper): the optional `v` is None / is the number `new`
        st.facts['opt:' + v.tx] = new

    # ------------------------------------------------------------------ trees
    def map_leaves(self, t, f):
        if isinstance(t, Leaf):
            return f(t)
        n = copy.copy(t)
        n.a, n.b = self.map_leaves(t.a, f), self.map_leaves(t.b, f)
        return n

    def then(self, t, k):
        """continue every falling-through leaf of `t` with k(state)"""
        return self.map_leaves(t, lambda l: k(l.st) if l.kind == 'fall' else l)

    def branch(self, c, st, on_true, on_false):
        """tree of a two-way test; on_* : state -> tree"""
        if c[0] == 'const':
            return on_true(st) if c[1] else on_false(st)
        if c[0] == 'isnone':
            v, pos = c[1], c[2]
            s_none, s_some = st.fork(), st.fork()
            self.refine_opt(s_none, v, V('none'))
            var = self.fresh('t')
            self.refine_opt(s_some, v, V('num', var, raw=v.raw))
            tn = (on_true if pos else on_false)(s_none)
            ts = (on_false if pos else on_true)(s_some)
            return Node('opt', tn, ts, tx=v.tx, var=var)
        s1, s2 = self.assume(st.fork(), c[1], True), self.assume(st.fork(), c[1], False)
        return Node('if', on_true(s1), on_false(s2), cond=c[1])

    def guarded(self, st, guards, k):
        """check the implicit exceptions of an evaluated expression (in order), then k(state)"""
        if not guards:
            return k(st)
        (prop, exc), rest = guards[0], guards[1:]
        c = self.known(st, prop)
        return self.branch(c, st, lambda s: Leaf('raise', s, exc), lambda s: self.guarded(s, rest, k))

    # ------------------------------------------------------------------ statements
    def block(self, stmts, st):
        if not stmts:
            return Leaf('fall', st)
        s, rest = stmts[0], stmts[1:]
        if isinstance(s, ast.If):
            x = np_type_test(s.test)
            v = None
            if x is not None and x in st.env and st.env[x].ty in ('num', 'optnum', 'none'):
                v = self.eval(ast.Name(id=x, ctx=ast.Load()), st, [])
            if v is not None and v.ty in ('num', 'optnum', 'none') and not (v.raw and np_scalar_test(s.test)):
                # another numpy type test (or one on a number that is already a Python number): its outcome is
                # not a property of the value, so both paths must do the same.  Where the test excludes Python
                # numbers `x.copy()` is possible (the same value)
                for kind in ('py', 'generic', 'arr0'):
                    try:
                        _np_eval(s.test, x, kind)
                    except _NpRaises:
                        fail('a numpy type test that may raise: %s' % ast.unparse(s.test)[:60], s)
                sa, sb = st.fork(), st.fork()
                if _np_eval(s.test, x, 'py') is False:
                    sa.facts['npobj:%s' % v.tx] = True
                    if np_scalar_test(s.test):
                        sa.facts['np:%s' % v.tx] = True       # a repeated conversion: x.item() is the same value
                else:
                    sb.facts['npobj:%s' % v.tx] = True
                n0 = self.counter
                ta = self.block(s.body + rest, sa)
                n1, self.counter = self.counter, n0
                tb = self.block(s.orelse + rest, sb)
                if n1 != self.counter or not self.same_tree(ta, tb):
                    fail('the numpy type test on %s changes more than the representation of the number' % x, s)
                return tb
            x = np_scalar_test(s.test) if (v is not None and v.raw) else None
            if x is not None and x in st.env and st.env[x].ty in ('num', 'optnum', 'none'):
                # `if <x is a numpy scalar or a 0-d array>: A else: B`.  The model's numbers are exact values, a
                # numpy scalar and the Python number `x.item()` are the same value: both paths (A, where x.item()
                # is that value; B, where x is known to be a Python number) must do the same, then either is taken.
                g = []
                v = self.eval(ast.Name(id=x, ctx=ast.Load()), st, g)
                sa, sb = st.fork(), st.fork()
                sa.facts['np:%s' % v.tx] = True
                self.mark_converted(sb, v)
                n0 = self.counter
                ta = self.block(s.body + rest, sa)
                n1, self.counter = self.counter, n0
                tb = self.block(s.orelse + rest, sb)
                if n1 != self.counter or not self.same_tree(ta, tb):
                    fail('the numpy-scalar test on %s changes more than the representation of the number' % x, s)
                return tb
        return self.then(self.stmt(s, st), lambda st2: self.block(rest, st2))

    @staticmethod
    def mark_converted(st, v):
        """`v` is known to be a Python number (not a numpy scalar / 0-d array)"""
        for k, e in list(st.env.items()):
            if e.ty == v.ty and e.tx == v.tx and e.raw:
                st.env[k] = V(e.ty, e.tx, e.py, raw=False)
        for k, e in list(st.facts.items()):
            if k.startswith('opt:') and isinstance(e, V) and e.ty == v.ty and e.tx == v.tx and e.raw:
                st.facts[k] = V(e.ty, e.tx, e.py, raw=False)

    def same_tree(self, a, b):
        if isinstance(a, Leaf) != isinstance(b, Leaf):
            return False
        if isinstance(a, Leaf):
            va = a.val.key() if isinstance(a.val, V) else a.val
            vb = b.val.key() if isinstance(b.val, V) else b.val
            if a.kind != b.kind or va != vb or self.store_text(a.st) != self.store_text(b.st):
                return False
            if a.kind == 'fall':
                ea = {k: v.key() for k, v in a.st.env.items()}
                eb = {k: v.key() for k, v in b.st.env.items()}
                return ea == eb
            return True
        if a.kind != b.kind:
            return False
        for f in ('cond', 'tx', 'var', 'len', 'idx'):
            if getattr(a, f, None) != getattr(b, f, None):
                return False
        return self.same_tree(a.a, b.a) and self.same_tree(a.b, b.b)

    def stmt(self, s, st):
        st = st.fork()
        if isinstance(s, ast.Pass) or (isinstance(s, ast.Expr) and isinstance(s.value, ast.Constant)):
            return Leaf('fall', st)
        if isinstance(s, ast.FunctionDef):
            if s.decorator_list:
                fail('decorated nested function %s' % s.name, s)
            st.env[s.name] = V('func', py=(s, None, len(st.frames)))
            return Leaf('fall', st)
        if isinstance(s, (ast.Global, ast.Nonlocal)):
            fail('global / nonlocal', s)
        if isinstance(s, ast.If):
            return self.stmt_if(s, st)
        if isinstance(s, ast.Assert):
            c = self.cond(s.test, st)
            if s.msg is not None:
                self.pure_args([s.msg])
            return self.branch(c, st, lambda s_: Leaf('fall', s_), lambda s_: Leaf('raise', s_, 'AssertionError'))
        if isinstance(s, ast.Raise):
            if s.exc is None or s.cause is not None:
                fail('unsupported raise', s)
            exc = s.exc
            name = exc.func.id if isinstance(exc, ast.Call) and isinstance(exc.func, ast.Name) else (
                exc.id if isinstance(exc, ast.Name) else None)
            if name not in PYERR:
                fail('unsupported exception %s' % ast.unparse(exc)[:40], s)
            if isinstance(exc, ast.Call):
                self.pure_args(exc.args + [k.value for k in exc.keywords])
            return Leaf('raise', st, name)
        if isinstance(s, ast.Return):
            if s.value is None:
                return Leaf('return', st, None)
            g = []
            v = self.eval(s.value, st, g)
            return self.guarded(st, g, lambda s_: Leaf('return', s_, None if v.ty == 'none' else v))
        if isinstance(s, (ast.Assign, ast.AnnAssign)):
            if isinstance(s, ast.Assign):
                if len(s.targets) != 1:
                    fail('multiple assignment targets', s)
                tgt = s.targets[0]
            else:
                tgt = s.target
                if s.value is None:
                    return Leaf('fall', st)
            g = []
            v = self.eval(s.value, st, g)
            return self.guarded(st, g, lambda s_: self.assign(tgt, v, s_, s))
        if isinstance(s, ast.AugAssign):
            return self.stmt_aug(s, st)
        if isinstance(s, ast.Expr) and isinstance(s.value, ast.Call):
            return self.stmt_call(s.value, st)
        fail('unsupported statement %s' % ast.unparse(s)[:60], s)

    def stmt_if(self, s, st):
        c = self.cond(s.test, st)
        if c[0] == 'const':
            return self.block(s.body if c[1] else s.orelse, st)
        if c[0] == 'prop':
            s1, s2 = self.assume(st.fork(), c[1], True), self.assume(st.fork(), c[1], False)
            t1, t2 = self.block(s.body, s1), self.block(s.orelse, s2)
            if isinstance(t1, Leaf) and isinstance(t2, Leaf) and t1.kind == 'fall' and t2.kind == 'fall':
                # straight-line branches: one state whose changed attributes are conditional values
                j = st.fork()
                for k in MUTABLE:
                    j.store[k] = self.ite(c[1], t1.st.store[k], t2.st.store[k], s)
                    if j.store[k].ty == 'undef':
                        fail('attribute %s gets different kinds of value' % k, s)
                for k in set(t1.st.env) | set(t2.st.env):
                    a, b = t1.st.env.get(k), t2.st.env.get(k)
                    j.env[k] = V('undef') if a is None or b is None else self.ite(c[1], a, b, s)
                return Leaf('fall', j)
            return Node('if', t1, t2, cond=c[1])
        return self.branch(c, st, lambda s_: self.block(s.body, s_), lambda s_: self.block(s.orelse, s_))

    def self_field(self, tgt, st, node):
        """(field, type) of the assignment target `self._a`"""
        if not (isinstance(tgt, ast.Attribute) and isinstance(tgt.value, ast.Name) and tgt.value.id in st.objs):
            fail('unsupported assignment target %s' % ast.unparse(tgt), node)
        obj = st.objs[tgt.value.id]
        if not obj.mutable:
            fail('write to an attribute of the merged-in operand: %s' % ast.unparse(tgt), node)
        fld = self.field_of(obj, tgt.attr, node)
        if fld is None or fld[0] not in MUTABLE:
            fail('write to %s (not an accumulated attribute)' % ast.unparse(tgt), node)
        return fld

    def coerce(self, v, ty, node):
        if ty == 'num':
            return V('num', self.as_num(v, node))
        if ty == 'nat':
            return V('nat', self.as_nat(v, node))
        if v.ty != ty:
            fail('a value of kind %s is stored where %s is expected' % (v.ty, ty), node)
        return v

    def assign(self, tgt, v, st, node):
        if isinstance(tgt, ast.Name):
            if tgt.id in st.objs:
                fail('rebinding %s' % tgt.id, node)
            if v.ty == 'obj':
                fail('aliasing an object under a new name', node)
            st.env[tgt.id] = v
            return Leaf('fall', st)
        name, ty = self.self_field(tgt, st, node)
        st.store[name] = self.coerce(v, ty, node)
        return Leaf('fall', st)

    def stmt_aug(self, s, st):
        tgt = s.target
        if isinstance(tgt, ast.Subscript):
            # self._value[int(x)] += 1   (numpy int array)
            g = []
            arr = self.eval(tgt.value, st, g)
            name, ty = self.self_field(tgt.value, st, s)
            if arr.ty != 'arr' or ty != 'arr' or not isinstance(s.op, ast.Add):
                fail('unsupported indexed update %s' % ast.unparse(s), s)
            idx = self.eval(tgt.slice, st, g)
            inc = self.eval(s.value, st, g)
            if idx.ty != 'int' or inc.ty != 'lit' or inc.py != 1 or g:
                fail('indexed update must be `a[int(x)] += 1`', s)
            var = self.fresh('i')
            s_out, s_in = st.fork(), st.fork()
            s_in.store[name] = V('arr', 'incr %s %s' % (paren(arr.tx), var))
            return Node('idx', Leaf('raise', s_out, 'IndexError'), Leaf('fall', s_in),
                        len='%s.length' % paren(arr.tx), idx=idx.tx, var=var)
        g = []
        if isinstance(tgt, ast.Name):
            cur = self.eval(tgt, st, g)
            name = ty = None
        else:
            name, ty = self.self_field(tgt, st, s)
            cur = self.eval(tgt, st, g)
        v = self.eval(s.value, st, g)
        if cur.ty == 'arr' and v.ty == 'arr' and isinstance(s.op, ast.Add):
            la, lb = '%s.length' % paren(cur.tx), '%s.length' % paren(v.tx)
            if not (st.facts.get('%s = %s' % (la, lb)) or st.facts.get('%s = %s' % (lb, la))):
                fail('array += array without a checked `len(a) == len(b)` (numpy broadcasting is not modelled)', s)
            new = V('arr', 'List.zipWith (· + ·) %s %s' % (paren(cur.tx), paren(v.tx)))
        else:
            new = self.arith(s.op, cur, v, st, g, s)

        def store(s_):
            if name is None:
                s_.env[tgt.id] = new
            else:
                s_.store[name] = self.coerce(new, ty, s)
            return Leaf('fall', s_)
        return self.guarded(st, g, store)

    def stmt_call(self, call, st):
        f = call.func
        # list mutators
        if isinstance(f, ast.Attribute) and f.attr in ('append', 'extend') and isinstance(f.value, ast.Attribute) \
                and isinstance(f.value.value, ast.Name) and f.value.value.id in st.objs \
                and self.field_of(st.objs[f.value.value.id], f.value.attr, call) is not None \
                and self.field_of(st.objs[f.value.value.id], f.value.attr, call)[1] == 'list':
            name, _ = self.self_field(f.value, st, call)
            if len(call.args) != 1 or call.keywords:
                fail('unsupported list call %s' % ast.unparse(call), call)
            g = []
            cur = self.eval(f.value, st, g)
            v = self.eval(call.args[0], st, g)
            if f.attr == 'append':
                new = V('list', '%s ++ [%s]' % (paren(cur.tx), self.as_num(v, call)))
            else:
                if v.ty != 'list':
                    fail('extend() with %s' % v.ty, call)
                new = V('list', '%s ++ %s' % (paren(cur.tx), paren(v.tx)))

            def store(s_):
                s_.store[name] = new
                return Leaf('fall', s_)
            return self.guarded(st, g, store)
        # dispatch:  d.get(code, default)(args)
        g = []
        fn = None
        if isinstance(f, ast.Call) and isinstance(f.func, ast.Attribute) and f.func.attr == 'get' and not f.keywords \
                and len(f.args) in (1, 2):
            d = self.eval(f.func.value, st, g)
            if d.ty == 'dict':
                k = self.eval(f.args[0], st, g)
                if k.ty != 'tyc':
                    fail('dispatch on something that is not the concrete type code', call)
                if k.py in d.py:
                    fn = d.py[k.py]
                elif len(f.args) == 2:
                    fn = self.eval(f.args[1], st, g)
                else:
                    fn = V('none')
        if fn is None:
            fn = self.eval(f, st, g)
        if fn.ty == 'raises':
            return self.guarded(st, g, lambda s_: Leaf('raise', s_, fn.py))
        if fn.ty == 'none':
            return self.guarded(st, g, lambda s_: Leaf('raise', s_, 'TypeError'))
        if fn.ty != 'func':
            fail('unsupported call statement %s' % ast.unparse(call)[:60], call)
        node, obj, depth = fn.py
        if any(isinstance(a, ast.Starred) for a in call.args) or any(k.arg is None for k in call.keywords):
            fail('star arguments', call)
        args = [self.eval(a, st, g) for a in call.args]
        kw = {k.arg: self.eval(k.value, st, g) for k in call.keywords}

        def run(s_):
            t = self.call_tree(node, obj, args, kw, s_, call, depth)

            def back(l):
                if l.kind != 'return':
                    return l
                # the callee's locals die, its writes and what was learnt on the path stay
                s2 = s_.fork()          # (the caller's names and frames)
                s2.store = dict(l.st.store)
                s2.facts = dict(l.st.facts)
                for k, o in s2.objs.items():
                    for o2 in l.st.objs.values():
                        if o2.var == o.var and o.ty is None:
                            o.ty = o2.ty
                return Leaf('fall', s2)
            return self.map_leaves(t, back)
        return self.guarded(st, g, run)


# ---------------------------------------------------------------------- emission
def record(var, st, init):
    ch = [(k, st.store[k].tx) for k in MUTABLE if st.store[k].tx != init[k].tx]
    if not ch:
        return var
    return '{ %s with %s }' % (var, ', '.join('%s := %s' % kv for kv in ch))


def emit(t, ind, leaf):
    pad = '  ' * ind
    if isinstance(t, Leaf):
        return pad + leaf(t)
    if t.kind == 'if':
        return '%sif %s then\n%s\n%selse\n%s' % (pad, t.cond, emit(t.a, ind + 1, leaf), pad, emit(t.b, ind + 1, leaf))
    if t.kind == 'opt':
        return '%smatch %s with\n%s| none =>\n%s\n%s| some %s =>\n%s' % (
            pad, t.tx, pad, emit(t.a, ind + 1, leaf), pad, t.var, emit(t.b, ind + 1, leaf))
    if t.kind == 'idx':
        return '%smatch pyIndex %s %s with\n%s| none =>\n%s\n%s| some %s =>\n%s' % (
            pad, paren(t.len), paren(t.idx), pad, emit(t.a, ind + 1, leaf), pad, t.var, emit(t.b, ind + 1, leaf))
    raise TranslateError('C06Result: internal: unknown node')


def find_class(tree, name):
    found = [n for n in tree.body if isinstance(n, ast.ClassDef) and n.name == name]
    if len(found) != 1:
        raise TranslateError('C06Result: class %s: %d definitions' % (name, len(found)))
    return found[0]


def type_codes(cls):
    """values of Result.SUMTYPE … CHOICETYPE (class-level constants)"""
    codes = {}
    for n in cls.body:
        if not isinstance(n, ast.Assign) or len(n.targets) != 1:
            continue
        t, v = n.targets[0], n.value
        if isinstance(t, ast.Tuple) and all(isinstance(x, ast.Name) for x in t.elts):
            names = [x.id for x in t.elts]
            if not set(names) & {a for a, _ in TYPES}:
                continue
            if isinstance(v, ast.Call) and ast.unparse(v.func) == 'range' and len(v.args) == 1 \
                    and isinstance(v.args[0], ast.Constant) and v.args[0].value == len(names):
                vals = list(range(len(names)))
            elif isinstance(v, ast.Tuple) and all(isinstance(x, ast.Constant) and isinstance(x.value, int) for x in v.elts) \
                    and len(v.elts) == len(names):
                vals = [x.value for x in v.elts]
            else:
                raise TranslateError('C06Result: type codes are not literal')
            for a, b in zip(names, vals):
                if a in codes:
                    raise TranslateError('C06Result: type code %s assigned twice' % a)
                codes[a] = b
        elif isinstance(t, ast.Name) and t.id in {a for a, _ in TYPES}:
            if not (isinstance(v, ast.Constant) and isinstance(v.value, int)) or t.id in codes:
                raise TranslateError('C06Result: type code %s is not a literal assigned once' % t.id)
            codes[t.id] = v.value
    if set(codes) != {a for a, _ in TYPES} or len(set(codes.values())) != 4:
        raise TranslateError('C06Result: the four type codes must be distinct class constants, found %s' % codes)
    return codes


def initial(var, ty):
    store = {k: V(FIELD_TYPE[k], '%s.%s' % (var, k)) for k in MUTABLE}
    return store


def run_function(cls, codes, name, ty, params, other=False):
    """symbolic execution of Result.<name> for an object of result type `ty`"""
    ex = Exec(cls, codes)
    fn = ex.method(name)
    if fn is None:
        raise TranslateError('C06Result: method %s not found' % name)
    var = 'a' if other else 'r'
    st = State(initial(var, ty), {}, {}, {})
    args = [V('obj', py=Obj('b', False, None))] if other else list(params)
    want = [a.arg for a in fn.args.args][1:]
    expect = {'update': ['value', 'total'], 'merge': ['other']}.get(name, [])
    if want != expect or fn.args.vararg or fn.args.kwarg or fn.args.kwonlyargs:
        raise TranslateError('C06Result: %s takes %s, expected %s (the public signature)' % (name, want, expect))
    if name == 'update' and [ast.unparse(d) for d in fn.args.defaults] != ['None']:
        raise TranslateError('C06Result: update: `total` must default to None (and `value` have no default)')
    tree = ex.call_tree(fn, Obj(var, True, ty), args, {}, st, fn)
    return ex, tree, st


def gen_update(cls, codes):
    arms, conv = [], []
    for pyname, ty in TYPES:
        ex, tree, st0 = run_function(cls, codes, 'update', ty, [V('num', 'o.v', raw=True), V('optnum', 'o.t', raw=True)])
        init = st0.store

        def leaf(l):
            if l.kind == 'return' and l.val is not None:
                fail('update returns a value')
            return '(%s, %s)' % (record('r', l.st, init), 'some .%s' % l.val if l.kind == 'raise' else 'none')
        arms.append('  | .%s =>\n%s' % (ty, emit(tree, 2, leaf)))
        conv.append(not ex.raw_used)
    text = ('/-- `Result.update(value, total)`: the object afterwards and the exception raised, if any -/\n'
            'def update (r : Res) (o : Obs) : Res × Option PyErr :=\n  match r.ty with\n' + '\n'.join(arms) + '\n')
    text += ('\n/-- `value` and `total` are converted to Python numbers (`x.item()` for numpy scalars / 0-d arrays)\n'
             '    before they reach arithmetic, an attribute or a list: no sum is computed in a narrow numpy type -/\n'
             'def updateConvertsNumpy : Bool := %s\n' % ('true' if all(conv) else 'false'))
    return text


def gen_merge(cls, codes):
    arms = []
    for pyname, ty in TYPES:
        ex, tree, st0 = run_function(cls, codes, 'merge', ty, [], other=True)
        init = st0.store

        def leaf(l):
            if l.kind == 'return' and l.val is not None:
                fail('merge returns a value')
            return '(%s, %s)' % (record('a', l.st, init), 'some .%s' % l.val if l.kind == 'raise' else 'none')
        arms.append('  | .%s =>\n%s' % (ty, emit(tree, 2, leaf)))
    return ('/-- `Result.merge(other)` (`other` a different object): `self` afterwards and the exception raised, if any -/\n'
            'def merge (a b : Res) : Res × Option PyErr :=\n  match a.ty with\n' + '\n'.join(arms) + '\n')


def gen_getter(cls, codes, pyname, lean, kind, doc):
    arms = []
    for _, ty in TYPES:
        ex, tree, st0 = run_function(cls, codes, pyname, ty, [])
        init = st0.store

        def leaf(l):
            if Exec.store_text(l.st) != tuple((k, init[k].ty, init[k].tx) for k in MUTABLE):
                fail('%s writes attributes' % pyname)
            if l.kind == 'raise':
                return '.error .%s' % l.val
            v = l.val
            if l.kind != 'return' or v is None:
                fail('%s returns nothing on some path' % pyname)
            if kind == 'num':
                if v.ty not in NUMERIC:
                    fail('%s returns %s' % (pyname, v.ty))
                return '.ok (%s)' % ex.as_num(v)
            if v.ty in NUMERIC:
                return '.ok (.num (%s))' % ex.as_num(v)
            if v.ty == 'ratarr':
                return '.ok (.arr (%s))' % v.tx
            if v.ty == 'str' and v.py == 'Nothing yet':
                return '.ok .nothing'
            fail('%s returns %s' % (pyname, v.ty))
        arms.append('  | .%s =>\n%s' % (ty, emit(tree, 2, leaf)))
    out = 'GetOut' if kind == 'get' else 'Rat'
    return ('/-- %s -/\ndef %s (r : Res) : Except PyErr %s :=\n  match r.ty with\n' % (doc, lean, out)
            + '\n'.join(arms) + '\n')


def gen(repo):
    tree = parse_file(os.path.join(repo, FILE))
    cls = find_class(tree, CLASS)
    codes = type_codes(cls)
    out = ['/-- the integer values of `Result.SUMTYPE, RATIOTYPE, MISCTYPE, CHOICETYPE` -/\n'
           'def tyCode : Ty → Nat\n' + ''.join('  | .%s => %d\n' % (ty, codes[py]) for py, ty in TYPES)]
    out.append(gen_update(cls, codes))
    out.append(gen_merge(cls, codes))
    out.append(gen_getter(cls, codes, 'get_result', 'getResult', 'get', '`Result.get_result()`'))
    out.append(gen_getter(cls, codes, 'get_result_mean', 'getMean', 'num', '`Result.get_result_mean()`'))
    out.append(gen_getter(cls, codes, 'get_result_var', 'getVar', 'num', '`Result.get_result_var()`'))
    return (HEADER % (FILE + ' (class Result: update, _assert_can_merge, merge, get_result, get_result_mean, '
                             'get_result_var)')
            + 'import PyPhysim.Model.C06\nset_option linter.unusedVariables false\n'
            + 'namespace PyPhysim.Generated.C06\nopen PyPhysim.Proto PyPhysim.C06M\n\n'
            + '\n'.join(out) + '\nend PyPhysim.Generated.C06\n')


TARGETS = {'C06Result': gen}
