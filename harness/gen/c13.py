"""Translator plugin for C13: re-emits the numeric formulas, constants, guards and
decision ladders of pyphysim/channels/pathloss.py, antennagain.py and the dB
conversions of util/conversion.py as Lean definitions that are polymorphic in
the scalar type (core classes only + `PyPhysim.C13.Transc`).

Fragment (anything else raises TranslateError => "tie broken"):
  expressions : int / float literals, names, `self.x` / `self._x`, + - * /, unary -,
                `e**2`, `10**e` / `10.**e` / `pow(10, e)`, `log10` / `math.log10` / `np.log10`,
                `np.minimum(a, b)`, `cast(T, e)`, `dB2Linear(e)`
  statements  : straight-line `name = expr`, `return expr`; skipped by pattern:
                docstrings, `if isinstance(d, Iterable): log10 = …`, the Okumura-Hata
                distance warning, `x = self._method()` (x becomes a parameter)
  ladders     : `if/elif/else` whose branches assign one name (or raise), tests being
                string (in)equalities / memberships of `self.area_type` and numeric comparisons
  guards      : `if <numeric comparisons joined by or>: raise RuntimeError` followed by `self._x = value`

Equivalent spellings (harness.gen.norm; harmless rewrites reach the same Lean text):
  * private helpers with a straight-line body (`self._get_fc_in_GHz()`, a static
    `Cls._term(fc)`, a module-level `_f(x)`) are replaced by the value they return, at any depth of an
    expression; `log10 = _helper(d)` with a helper that only chooses between `np.log10` and `math.log10` is
    spliced in and then skipped like the inline `if isinstance(d, Iterable): log10 = ...`
  * conditional expressions are if/else statements (`log10 = np.log10 if .. else math.log10`,
    `return 0.0 if .. else 0`); `pow(10, e)` is `10 ** e`
  * ladders are read in decision-tree normal form: guard clauses / early returns == elif/else chains,
    `!=` / `not in` tests == the positive test with the branches swapped, `v = e; return v` == `return e`
  * `for <names> in <literal table>: if <test>: ...; break` + `else: raise` == the unrolled if/elif ladder
A DIFFERENT ORDER of the tests of a ladder is emitted as written (another Lean term); the theorems about it
(`Proofs/C13Models.lean`) are proved by cases on the area type and do not depend on the order.
"""
import ast
import os
from decimal import Decimal

from harness.translate import TranslateError, parse_file, find_fn, HEADER, strip_doc
from harness.gen import norm

norm.extra_pure_calls.update({'dB2Linear', 'linear2dB', 'log10'})

LOGS = {'log10'}
CMP = {ast.Lt: '<', ast.Gt: '>', ast.LtE: '≤', ast.GtE: '≥'}


def lit_float(v):
    d = Decimal(repr(float(v)))
    s = format(d, 'f')
    if '.' not in s:
        s += '.0'
    if s.startswith('-'):
        raise TranslateError('negative float literal')
    return '(%s : α)' % s


def lit_int(v):
    if v < 0:
        raise TranslateError('negative int literal')
    return '((%d : Nat) : α)' % v


def attr_name(e):
    """self.x / self._x  ->  x"""
    if isinstance(e, ast.Attribute) and isinstance(e.value, ast.Name) and e.value.id == 'self':
        return e.attr.lstrip('_')
    return None


class Expr:
    """numeric expression translator; records the free variables it meets"""

    def __init__(self, locals_=()):
        self.locals = set(locals_)
        self.free = []

    def var(self, name):
        if name not in self.locals and name not in self.free:
            self.free.append(name)
        return name

    def is_ten(self, e):
        return isinstance(e, ast.Constant) and not isinstance(e.value, bool) and e.value in (10, 10.0)

    def tr(self, e):
        if isinstance(e, ast.Constant):
            if isinstance(e.value, bool) or not isinstance(e.value, (int, float)):
                raise TranslateError('unsupported literal %r' % (e.value,))
            return lit_int(e.value) if isinstance(e.value, int) else lit_float(e.value)
        if isinstance(e, ast.Name):
            return self.var(e.id)
        a = attr_name(e)
        if a is not None:
            return self.var(a)
        if isinstance(e, ast.UnaryOp) and isinstance(e.op, ast.USub):
            return '(-%s)' % self.tr(e.operand)
        if isinstance(e, ast.BinOp):
            if isinstance(e.op, ast.Pow):
                if isinstance(e.right, ast.Constant) and e.right.value == 2 and not self.is_ten(e.left):
                    return '(sq %s)' % self.tr(e.left)
                if self.is_ten(e.left):
                    return '(Transc.pow10 %s)' % self.tr(e.right)
                raise TranslateError('unsupported power')
            ops = {ast.Add: '+', ast.Sub: '-', ast.Mult: '*', ast.Div: '/'}
            if type(e.op) not in ops:
                raise TranslateError('unsupported operator ' + type(e.op).__name__)
            return '(%s %s %s)' % (self.tr(e.left), ops[type(e.op)], self.tr(e.right))
        if isinstance(e, ast.Call):
            f = e.func
            fname = f.id if isinstance(f, ast.Name) else (f.attr if isinstance(f, ast.Attribute) else None)
            base = f.value.id if isinstance(f, ast.Attribute) and isinstance(f.value, ast.Name) else None
            if e.keywords:
                raise TranslateError('keyword call')
            if fname in LOGS and base in (None, 'math', 'np') and len(e.args) == 1:
                return '(Transc.log10 %s)' % self.tr(e.args[0])
            if fname == '_log10' and base is None and len(e.args) == 1:
                # conversion.py's float-promotion helper `np.log10(np.asarray(value) + 0.0)`: over the
                # reals it is log10 (its exact shape is checked by the C20 plugin, which owns it)
                from harness.gen import c20 as _c20
                import os as _os
                _c20.check_log10_helper(_c20.T.parse_file(_os.path.join(
                    _os.environ.get('PYPHYSIM_REPO', '/repo'), 'pyphysim/util/conversion.py')))
                return '(Transc.log10 %s)' % self.tr(e.args[0])
            if fname == 'pow' and base is None and len(e.args) == 2 and self.is_ten(e.args[0]):
                return '(Transc.pow10 %s)' % self.tr(e.args[1])
            if fname == 'minimum' and base == 'np' and len(e.args) == 2:
                return '(minimum %s %s)' % (self.tr(e.args[0]), self.tr(e.args[1]))
            if fname == 'cast' and base is None and len(e.args) == 2:
                return self.tr(e.args[1])
            if fname == 'dB2Linear' and base in (None, 'conversion') and len(e.args) == 1:
                return '(dB2Linear %s)' % self.tr(e.args[0])
        raise TranslateError('unsupported expression: ' + ast.dump(e)[:160])


def is_log_func(e):
    return isinstance(e, ast.Attribute) and e.attr == 'log10' and isinstance(e.value, ast.Name) and e.value.id in ('np', 'math')


def is_log_select(s):
    """if isinstance(d, Iterable): log10 = np.log10 else: log10 = math.log10   (both values must be a log10)"""
    return (isinstance(s, ast.If) and isinstance(s.test, ast.Call)
            and isinstance(s.test.func, ast.Name) and s.test.func.id == 'isinstance'
            and bool(s.body) and bool(s.orelse)
            and all(isinstance(b, ast.Assign) and isinstance(b.targets[0], ast.Name)
                    and b.targets[0].id == 'log10' and is_log_func(b.value) for b in s.body + s.orelse))


def is_warn_only(s):
    """if <cond>: msg = '…'; warnings.warn(msg)     (no effect on the value)"""
    if not (isinstance(s, ast.If) and not s.orelse):
        return False
    for b in s.body:
        if isinstance(b, ast.Assign) and isinstance(b.value, (ast.Constant, ast.JoinedStr)):
            continue
        if (isinstance(b, ast.Expr) and isinstance(b.value, ast.Call)
                and isinstance(b.value.func, ast.Attribute) and b.value.func.attr == 'warn'):
            continue
        return False
    return True


def is_self_method_call(e):
    return (isinstance(e, ast.Call) and attr_name(e.func) is not None and not e.args and not e.keywords)


class Prep:
    """source normalisation of one module: helper inlining + canonical spellings (see module docstring)"""

    def __init__(self, tree):
        self.tree = tree

    def fn(self, name, cls=None, inline=True):
        f = find_fn(self.tree, name, cls)
        classes = norm.class_chain(self.tree, cls) if cls else []
        lookup = norm.private_lookup(module=self.tree, classes=classes, skip=('_log10',))   # (_log10: see Expr.tr)
        f = norm.canon_fn(f)
        if inline:
            f = norm.Inliner(lookup, caller_locals=norm.local_names(f)).visit(f)
        body = []
        for st in norm.unroll_for_else(norm.hoist_ifexp(strip_doc(f.body))):
            # `log10 = _helper(d)`: a helper that picks np.log10 / math.log10 becomes the inline if/else
            sp = None
            if isinstance(st, ast.Assign) and len(st.targets) == 1 and isinstance(st.targets[0], ast.Name) \
                    and st.targets[0].id == 'log10' and isinstance(st.value, ast.Call):
                sp = norm.splice_call(st, lookup)
                if sp is not None and not all(is_log_func(n.value) for t in sp for n in ast.walk(t)
                                              if isinstance(n, ast.Assign)):
                    raise TranslateError('log10 is bound to something that is not np.log10 / math.log10')
            body += sp if sp is not None else [st]
        f.body = body
        return f


def gen_straight(fn, lean_name, params, doc):
    """a straight-line numeric function -> `def lean_name (params : α) : α`"""
    ex = Expr()
    lines = []
    ret = None
    for s in strip_doc(fn.body):
        if is_log_select(s) or is_warn_only(s):
            continue
        if isinstance(s, ast.Assign) and len(s.targets) == 1 and isinstance(s.targets[0], ast.Name):
            name = s.targets[0].id
            if is_self_method_call(s.value):
                ex.var(name)          # value supplied by the caller of the generated definition
                continue
            if isinstance(s.value, ast.Constant) and isinstance(s.value.value, str):
                continue
            lines.append('  let %s : α := %s' % (name, ex.tr(s.value)))
            ex.locals.add(name)
            continue
        if isinstance(s, ast.Return) and s.value is not None:
            ret = ex.tr(s.value)
            break
        raise TranslateError('%s: unsupported statement %s' % (lean_name, ast.dump(s)[:120]))
    if ret is None:
        raise TranslateError('%s: no return value' % lean_name)
    if sorted(ex.free) != sorted(params):
        raise TranslateError('%s: free variables %s, expected %s' % (lean_name, sorted(ex.free), sorted(params)))
    return ('/-- %s -/\ndef %s (%s : α) : α :=\n%s%s\n'
            % (doc, lean_name, ' '.join(params), ''.join(l + '\n' for l in lines), '  ' + ret))


def str_list(e):
    if isinstance(e, (ast.List, ast.Tuple)) and all(isinstance(x, ast.Constant) and isinstance(x.value, str)
                                                     for x in e.elts):
        return '[' + ', '.join('"%s"' % x.value for x in e.elts) + ']'
    raise TranslateError('expected a list of string literals')


def cond(e, ex):
    """Boolean test -> Lean Bool term"""
    if isinstance(e, ast.BoolOp):
        op = ' || ' if isinstance(e.op, ast.Or) else ' && '
        return '(' + op.join(cond(v, ex) for v in e.values) + ')'
    if isinstance(e, ast.Compare) and len(e.ops) == 1:
        l, op, r = e.left, e.ops[0], e.comparators[0]
        lname = attr_name(l) or (l.id if isinstance(l, ast.Name) else None)
        if isinstance(op, (ast.In, ast.NotIn)) and lname is not None:
            t = '(%s.contains %s)' % (str_list(r), ex.var(lname))
            return t if isinstance(op, ast.In) else '(!%s)' % t
        if isinstance(op, (ast.Eq, ast.NotEq)) and isinstance(r, ast.Constant) and isinstance(r.value, str) \
                and lname is not None:
            return '(%s %s "%s")' % (ex.var(lname), '==' if isinstance(op, ast.Eq) else '!=', r.value)
        if type(op) in CMP:
            return '(decide (%s %s %s))' % (ex.tr(l), CMP[type(op)], ex.tr(r))
    raise TranslateError('unsupported condition: ' + ast.dump(e)[:160])


def gen_ladder(fn, lean_name, target, str_params, num_params, doc):
    """if/elif/else ladder assigning `target` (or raising) -> Except PyErr α"""
    ex = Expr()

    def branch(stmts):
        # decision tree: every leaf is `return e` or `raise`
        stmts = [s for s in stmts if not (isinstance(s, ast.Assign) and isinstance(s.value, (ast.Constant, ast.JoinedStr))
                                          and isinstance(getattr(s.value, 'value', ''), str))]
        if len(stmts) == 1 and isinstance(stmts[0], ast.If):
            s = stmts[0]
            if not s.orelse or not s.body:
                raise TranslateError('ladder without else')
            return '(if %s then %s\n   else %s)' % (cond(s.test, ex), branch(s.body), branch(s.orelse))
        if len(stmts) == 1 and isinstance(stmts[0], ast.Return) and stmts[0].value is not None:
            return '(.ok %s)' % ex.tr(stmts[0].value)
        if len(stmts) == 1 and isinstance(stmts[0], ast.Raise):
            exc = stmts[0].exc
            name = exc.func.id if isinstance(exc, ast.Call) else exc.id
            if name not in ('RuntimeError', 'ValueError'):
                raise TranslateError('unsupported exception ' + name)
            return '(.error .%s)' % name
        raise TranslateError('%s: unsupported ladder branch' % lean_name)

    # normal form: `if ..: target = e .. ; return target`, early returns and guard clauses all become one tree
    body = norm.tail_form(fn.body, True, collapse=True)
    if not (len(body) == 1 and isinstance(body[0], ast.If) and norm.terminates(body)):
        raise TranslateError('%s: expected a decision ladder returning %s' % (lean_name, target))
    t = branch([body[0]])
    if sorted(ex.free) != sorted(str_params + num_params):
        raise TranslateError('%s: free variables %s' % (lean_name, sorted(ex.free)))
    sig = ''.join(' (%s : String)' % p for p in str_params) + ' (%s : α)' % ' '.join(num_params)
    return '/-- %s -/\ndef %s%s : Except PyErr α :=\n  %s\n' % (doc, lean_name, sig, t)


def gen_setter_guard(cls_body, prop, lean_name, doc, string=False):
    """the `@prop.setter`: `if <test>: raise RuntimeError` then `self._prop = value`
    -> Bool `lean_name value` = the value is ACCEPTED"""
    for n in cls_body:
        if isinstance(n, ast.FunctionDef) and n.name == prop and any(
                isinstance(d, ast.Attribute) and d.attr == 'setter' for d in n.decorator_list):
            body = strip_doc(n.body)
            if len(body) == 1:           # unguarded setter
                g = None
            elif len(body) == 2 and isinstance(body[0], ast.If) and not body[0].orelse \
                    and isinstance(body[0].body[-1], ast.Raise):
                exc = body[0].body[-1].exc
                name = exc.func.id if isinstance(exc, ast.Call) else exc.id
                if name != 'RuntimeError':
                    raise TranslateError('%s: raises %s' % (lean_name, name))
                g = body[0].test
            else:
                raise TranslateError('%s: unsupported setter body' % lean_name)
            last = body[-1]
            if not (isinstance(last, ast.Assign) and attr_name(last.targets[0]) == prop
                    and isinstance(last.value, ast.Name) and last.value.id == 'value'):
                raise TranslateError('%s: setter does not store the value' % lean_name)
            ex = Expr()
            t = 'true' if g is None else '(!%s)' % cond(g, ex)
            if string:
                return '/-- %s -/\ndef %s (value : String) : Bool :=\n  %s\n' % (doc, lean_name, t)
            return '/-- %s -/\ndef %s (value : α) : Bool :=\n  %s\n' % (doc, lean_name, t)
    raise TranslateError('setter %s not found' % prop)


def ps7_dispatch_ok(fn, los, nlos):
    """the int branch: if num_walls == 0: <los>(x) elif num_walls > 0: <nlos>(x, num_walls) else: raise ValueError"""
    def is_cmp(t, op, k):
        return (isinstance(t, ast.Compare) and isinstance(t.left, ast.Name) and t.left.id == 'num_walls'
                and len(t.ops) == 1 and isinstance(t.ops[0], op)
                and isinstance(t.comparators[0], ast.Constant) and t.comparators[0].value == k)

    def calls(stmts, meth, nargs):
        # the leaf is `x = self.<meth>(..)` or (early-return spelling) `return self.<meth>(..)`
        return (len(stmts) == 1 and isinstance(stmts[0], (ast.Assign, ast.Return)) and isinstance(stmts[0].value, ast.Call)
                and attr_name(stmts[0].value.func) == meth.lstrip('_') and len(stmts[0].value.args) == nargs
                and (nargs == 1 or (isinstance(stmts[0].value.args[1], ast.Name)
                                    and stmts[0].value.args[1].id == 'num_walls')))
    tree = ast.Module(body=norm.tail_form(fn.body, True, collapse=True), type_ignores=[])
    for n in ast.walk(tree):
        if isinstance(n, ast.If) and is_cmp(n.test, ast.Eq, 0) and calls(n.body, los, 1) \
                and len(n.orelse) == 1 and isinstance(n.orelse[0], ast.If):
            m = n.orelse[0]
            if is_cmp(m.test, ast.Gt, 0) and calls(m.body, nlos, 2) and len(m.orelse) == 1 \
                    and isinstance(m.orelse[0], ast.Raise):
                exc = m.orelse[0].exc
                if (exc.func.id if isinstance(exc, ast.Call) else exc.id) == 'ValueError':
                    return True
    return False


def gen_plot_pattern(fn):
    """_plot_deterministic_path_loss_in_dB_impl: which flags are forced while the curve is drawn, and whether
    every attribute the helper writes is written back from a copy OF ITSELF, inside a `finally` block"""
    saved = {}       # variable -> attribute | [attributes]
    forced = {}      # attribute -> bool literal
    restored = []    # (target attribute, source attribute, in_finally)

    def self_attr(e):
        if isinstance(e, ast.Attribute) and isinstance(e.value, ast.Name) and e.value.id == 'self':
            return e.attr
        return None

    def visit(stmts, in_finally):
        for st in stmts:
            if isinstance(st, ast.Assign) and len(st.targets) == 1:
                tgt, val = st.targets[0], st.value
                if isinstance(tgt, ast.Name):
                    if self_attr(val) is not None:
                        saved[tgt.id] = self_attr(val)
                    elif isinstance(val, ast.Tuple) and all(self_attr(x) is not None for x in val.elts):
                        saved[tgt.id] = [self_attr(x) for x in val.elts]
                    continue
                if self_attr(tgt) is not None:
                    a = self_attr(tgt)
                    if isinstance(val, ast.Constant) and isinstance(val.value, bool):
                        forced[a] = val.value
                    elif isinstance(val, ast.Name) and isinstance(saved.get(val.id), str):
                        restored.append((a, saved[val.id], in_finally))
                    else:
                        raise TranslateError('plot helper: unrecognised write to self.%s' % a)
                    continue
                if isinstance(tgt, ast.Tuple) and all(self_attr(x) is not None for x in tgt.elts):
                    src = saved.get(val.id) if isinstance(val, ast.Name) else (
                        [self_attr(x) for x in val.elts] if isinstance(val, ast.Tuple) else None)
                    if isinstance(val, ast.Tuple) and src is not None:
                        src = [saved.get(x.id) if isinstance(x, ast.Name) else None for x in val.elts]
                    if not isinstance(src, list) or len(src) != len(tgt.elts) or any(x is None for x in src):
                        raise TranslateError('plot helper: unrecognised tuple restore')
                    for t, v in zip(tgt.elts, src):
                        restored.append((self_attr(t), v, in_finally))
                    continue
                raise TranslateError('plot helper: unrecognised assignment')
            if isinstance(st, ast.AugAssign) and self_attr(st.target) is not None:
                raise TranslateError('plot helper: augmented write to self.%s' % self_attr(st.target))
            if isinstance(st, ast.Try):
                visit(st.body, in_finally)
                for h in st.handlers:
                    visit(h.body, in_finally)
                visit(st.orelse, in_finally)
                visit(st.finalbody, True)
            elif isinstance(st, (ast.If, ast.For, ast.While, ast.With)):
                visit(st.body, in_finally)
                visit(getattr(st, 'orelse', []), in_finally)
    visit(strip_doc(fn.body), False)
    for a in forced:
        if a not in ('use_shadow_bool', 'handle_small_distances_bool'):
            raise TranslateError('plot helper forces self.%s' % a)
    own = all(t == v for t, v, _ in restored) and all(any(t == a for t, _, _ in restored) for a in forced)
    fin = all(f for _, _, f in restored)

    def opt(a):
        return 'some %s' % ('true' if forced[a] else 'false') if a in forced else 'none'
    return ('/-- PathLossBase._plot_deterministic_path_loss_in_dB_impl: flags forced while the curve is computed -/\n'
            'def plotForcedShadow : Option Bool := %s\n'
            'def plotForcedSmall : Option Bool := %s\n'
            '/-- every attribute the helper writes is restored from a saved copy of ITSELF -/\n'
            'def plotRestoresOwn : Bool := %s\n'
            '/-- … and the restore statements stand in a `finally` block -/\n'
            'def plotRestoresInFinally : Bool := %s\n'
            % (opt('use_shadow_bool'), opt('handle_small_distances_bool'), 'true' if own else 'false',
               'true' if fin else 'false'))


def find_cls(tree, name):
    for n in tree.body:
        if isinstance(n, ast.ClassDef) and n.name == name:
            return n
    raise TranslateError('class %s not found' % name)


def const_def(name, node, doc):
    ex = Expr()
    t = ex.tr(node)
    if ex.free:
        raise TranslateError('%s: not a constant' % name)
    return '/-- %s -/\ndef %s : α := %s\n' % (doc, name, t)


def init_attr_values(fn):
    """{attr: value node} for `self._x = <literal>` statements of an __init__"""
    out = {}
    for s in fn.body:
        if isinstance(s, (ast.Assign, ast.AnnAssign)):
            tgt = s.targets[0] if isinstance(s, ast.Assign) else s.target
            a = attr_name(tgt)
            if a is not None and s.value is not None:
                out[a] = s.value
    return out


def gen_c13(repo):
    pl = parse_file(os.path.join(repo, 'pyphysim/channels/pathloss.py'))
    ag = parse_file(os.path.join(repo, 'pyphysim/channels/antennagain.py'))
    cv = parse_file(os.path.join(repo, 'pyphysim/util/conversion.py'))
    Ppl, Pag, Pcv = Prep(pl), Prep(ag), Prep(cv)
    out = []
    # ---- util/conversion.py
    out.append(gen_straight(Pcv.fn('dB2Linear'), 'dB2Linear', ['valueIndB'], 'conversion.dB2Linear'))
    out.append(gen_straight(Pcv.fn('linear2dB'), 'linear2dB', ['valueInLinear'], 'conversion.linear2dB'))
    # ---- PathLossBase plot helper (a public non-setter that touches the policy flags)
    out.append(gen_plot_pattern(find_fn(pl, '_plot_deterministic_path_loss_in_dB_impl', 'PathLossBase')))
    # ---- PathLossGeneral
    out.append(gen_straight(Ppl.fn('_calc_deterministic_path_loss_dB', 'PathLossGeneral'),
                            'generalDb', ['n', 'C', 'd'], 'PathLossGeneral._calc_deterministic_path_loss_dB'))
    out.append(gen_straight(Ppl.fn('which_distance_dB', 'PathLossGeneral'),
                            'generalWhichDb', ['n', 'C', 'PL'], 'PathLossGeneral.which_distance_dB'))
    # ---- PathLossFreeSpace
    out.append(gen_straight(Ppl.fn('_calculate_C_from_fc_and_n', 'PathLossFreeSpace'),
                            'fsCalcC', ['fc', 'n'], 'PathLossFreeSpace._calculate_C_from_fc_and_n'))
    init = find_fn(pl, '__init__', 'PathLossFreeSpace')
    names = [a.arg for a in init.args.args][1:]
    if names != ['n', 'fc'] or len(init.args.defaults) != 2:
        raise TranslateError('PathLossFreeSpace.__init__ signature changed')
    out.append(const_def('fsDefaultN', init.args.defaults[0], 'PathLossFreeSpace() default exponent'))
    out.append(const_def('fsDefaultFc', init.args.defaults[1], 'PathLossFreeSpace() default carrier (MHz)'))
    # the setters must recompute C from (fc, n): `self._x = value; self._C = self._calculate_C_from_fc_and_n(self._fc, self.n)`
    fs = find_cls(pl, 'PathLossFreeSpace')
    for prop in ('n', 'fc'):
        ok = False
        for n in fs.body:
            if isinstance(n, ast.FunctionDef) and n.name == prop and any(
                    isinstance(d, ast.Attribute) and d.attr == 'setter' for d in n.decorator_list):
                body = strip_doc(n.body)
                ok = (len(body) == 2 and isinstance(body[0], ast.Assign) and attr_name(body[0].targets[0]) == prop
                      and isinstance(body[0].value, ast.Name) and body[0].value.id == 'value'
                      and isinstance(body[1], ast.Assign) and attr_name(body[1].targets[0]) == 'C'
                      and isinstance(body[1].value, ast.Call)
                      and attr_name(body[1].value.func) == 'calculate_C_from_fc_and_n'
                      and [attr_name(a) for a in body[1].value.args] == ['fc', 'n'])
        out.append('/-- PathLossFreeSpace.%s setter stores the value and recomputes `_C` from (`_fc`, `n`) -/\n'
                   'def fsSetter_%s_recomputesC : Bool := %s\n' % (prop, prop, 'true' if ok else 'false'))
    # ---- PathLoss3GPP1
    init = find_fn(pl, '__init__', 'PathLoss3GPP1')
    kws = None
    for n in ast.walk(init):
        if isinstance(n, ast.Call) and n.keywords:
            kws = {k.arg: k.value for k in n.keywords}
    if not kws or set(kws) != {'n', 'C'}:
        raise TranslateError('PathLoss3GPP1.__init__ pattern changed')
    out.append(const_def('gpp1N', kws['n'], 'PathLoss3GPP1 exponent'))
    out.append(const_def('gpp1C', kws['C'], 'PathLoss3GPP1 constant'))
    # ---- PathLossMetisPS7
    out.append(gen_straight(Ppl.fn('_calc_PS7_path_loss_dB_LOS_same_floor', 'PathLossMetisPS7'),
                            'ps7LosDb', ['fc', 'd'], 'PathLossMetisPS7._calc_PS7_path_loss_dB_LOS_same_floor'))
    out.append(gen_straight(Ppl.fn('_calc_PS7_path_loss_dB_NLOS_same_floor', 'PathLossMetisPS7'),
                            'ps7NlosDb', ['fc', 'd', 'num_walls'],
                            'PathLossMetisPS7._calc_PS7_path_loss_dB_NLOS_same_floor'))
    out.append(gen_straight(Ppl.fn('_which_distance_dB_LOS_same_floor', 'PathLossMetisPS7'),
                            'ps7LosWhichDb', ['fc', 'PL'], 'PathLossMetisPS7._which_distance_dB_LOS_same_floor'))
    out.append(gen_straight(Ppl.fn('_which_distance_dB_NLOS_same_floor', 'PathLossMetisPS7'),
                            'ps7NlosWhichDb', ['fc', 'PL', 'num_walls'],
                            'PathLossMetisPS7._which_distance_dB_NLOS_same_floor'))
    # dispatch on the wall count: `== 0` -> LOS helper, `> 0` -> NLOS helper, else ValueError
    for name, los, nlos in (('_calc_PS7_path_loss_dB_same_floor', '_calc_PS7_path_loss_dB_LOS_same_floor',
                             '_calc_PS7_path_loss_dB_NLOS_same_floor'),
                            ('which_distance_dB', '_which_distance_dB_LOS_same_floor',
                             '_which_distance_dB_NLOS_same_floor')):
        out.append('/-- PathLossMetisPS7.%s dispatches `num_walls == 0` / `> 0` / else ValueError -/\n'
                   'def ps7Dispatch_%s : Bool := %s\n'
                   % (name, name.strip('_'), 'true' if ps7_dispatch_ok(Ppl.fn(name, 'PathLossMetisPS7', inline=False), los, nlos)
                      else 'false'))
    init = find_fn(pl, '__init__', 'PathLossMetisPS7')
    out.append(const_def('ps7DefaultFc', init.args.defaults[0], 'PathLossMetisPS7() default carrier (MHz)'))
    # ---- PathLossOkomuraHata
    oh = find_cls(pl, 'PathLossOkomuraHata')
    out.append(gen_ladder(Ppl.fn('_calc_mobile_antenna_height_correction_factor', 'PathLossOkomuraHata'),
                          'ohA', 'a', ['area_type'], ['fc', 'hms'],
                          'PathLossOkomuraHata._calc_mobile_antenna_height_correction_factor'))
    out.append(gen_ladder(Ppl.fn('_calc_K', 'PathLossOkomuraHata'),
                          'ohK', 'K', ['area_type'], ['fc'], 'PathLossOkomuraHata._calc_K'))
    out.append(gen_straight(Ppl.fn('_calc_deterministic_path_loss_dB', 'PathLossOkomuraHata'),
                            'ohDb', ['fc', 'hbs', 'a', 'K', 'd'],
                            'PathLossOkomuraHata._calc_deterministic_path_loss_dB (a, K supplied by ohA / ohK)'))
    out.append(gen_setter_guard(oh.body, 'fc', 'ohFcAccepted', 'PathLossOkomuraHata.fc setter accepts the value'))
    out.append(gen_setter_guard(oh.body, 'hbs', 'ohHbsAccepted', 'PathLossOkomuraHata.hbs setter accepts the value'))
    out.append(gen_setter_guard(oh.body, 'hms', 'ohHmsAccepted', 'PathLossOkomuraHata.hms setter accepts the value'))
    area_guard = gen_setter_guard(oh.body, 'area_type', 'ohAreaAccepted',
                                  'PathLossOkomuraHata.area_type setter accepts the value', string=True)
    vals = init_attr_values(find_fn(pl, '__init__', 'PathLossOkomuraHata'))
    for a in ('hbs', 'hms', 'fc'):
        out.append(const_def('ohDefault' + a.capitalize(), vals[a], 'PathLossOkomuraHata() default ' + a))
    if not (isinstance(vals.get('area_type'), ast.Constant) and isinstance(vals['area_type'].value, str)):
        raise TranslateError('default area type not a string literal')
    # ---- AntGainBS3GPP25996
    init = Pag.fn('__init__', 'AntGainBS3GPP25996')          # (a for/else over a literal table is unrolled)
    ladder = [s for s in init.body if isinstance(s, ast.If)]
    if len(ladder) != 1:
        raise TranslateError('AntGainBS3GPP25996.__init__ pattern changed')
    node, sect = ladder[0], []
    while isinstance(node, ast.If):
        t = node.test
        if not (isinstance(t, ast.Compare) and isinstance(t.ops[0], ast.Eq)
                and isinstance(t.left, ast.Name) and t.left.id == 'number_of_sectors'
                and isinstance(t.comparators[0], ast.Constant)):
            raise TranslateError('sector test pattern changed')
        k = t.comparators[0].value
        vals_k = {}
        for s in node.body:
            if isinstance(s, ast.Assign) and attr_name(s.targets[0]) is not None:
                vals_k[attr_name(s.targets[0])] = s.value
        if set(vals_k) != {'theta_3db', 'Am', 'ant_gain'}:
            raise TranslateError('sector branch assigns %s' % sorted(vals_k))
        sect.append((k, vals_k))
        nxt = node.orelse
        if len(nxt) == 1 and isinstance(nxt[0], ast.If):
            node = nxt[0]
        else:
            if not (len(nxt) == 1 and isinstance(nxt[0], ast.Raise)):
                raise TranslateError('sector ladder must end in raise')
            node = None
    rows = []
    for k, v in sect:
        ex = Expr()
        rows.append('  if sectors == %d then some (%s, %s, %s) else' % (k, ex.tr(v['theta_3db']), ex.tr(v['Am']),
                                                                       ex.tr(v['ant_gain'])))
        if ex.free:
            raise TranslateError('sector parameters not constant')
    out.append('/-- AntGainBS3GPP25996.__init__: (theta_3db, Am, ant_gain) per sector count; `none` = ValueError -/\n'
               'def antParams (sectors : Nat) : Option (α × α × α) :=\n' + '\n'.join(rows) + '\n  none\n')
    out.append(gen_straight(Pag.fn('get_antenna_gain', 'AntGainBS3GPP25996'),
                            'antGain', ['ant_gain', 'theta_3db', 'Am', 'angle'],
                            'AntGainBS3GPP25996.get_antenna_gain'))
    head = (HEADER % 'pyphysim/channels/pathloss.py, pyphysim/channels/antennagain.py, pyphysim/util/conversion.py'
            + 'import PyPhysim.Model.C13Base\nopen PyPhysim.Proto\nnamespace PyPhysim.C13.Gen\n'
              'open PyPhysim.C13\n\n'
              'variable {α : Type} [Add α] [Sub α] [Mul α] [Div α] [Neg α] [NatCast α] [OfScientific α]\n'
              '  [LT α] [LE α] [DecidableLT α] [DecidableLE α] [Transc α]\n\n')
    area_default = ('/-- PathLossOkomuraHata() default area type -/\ndef ohDefaultArea : String := "%s"\n'
                    % vals['area_type'].value)
    return head + '\n'.join(out) + '\n' + area_guard + '\n' + area_default + '\nend PyPhysim.C13.Gen\n'


TARGETS = {'C13Constants': gen_c13}
