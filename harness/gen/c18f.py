"""Translator plugin of C18 (formulas): Generated/C18Formulas.lean is re-emitted from the current AST of
reference_signals/{zadoffchu,root_sequence,srs,dmrs,channel_estimation}.py on every run.

Method: a small SYMBOLIC EXECUTOR over the statements of each function (assignments, tuple assignments, augmented
assignments, `L.append(x)`, `if`, `return`, `raise`; asserts are checks, not values, and are dropped; private
helpers are executed in place; module constants are looked up).  Statements after a non-terminating `if` are
continued in both branches, so the result is a decision tree whose leaves are symbolic values; the values are
Lean terms, emitted as written (operand order and association kept: everything that is only equal over the reals /
integers is left to the bridge theorems of Properties/C18.lean, `generated_*`).

Value fragment
  real scalars / elementwise real arrays   names, numeric literals, np.pi, + - * /, unary -, `** 2`,
                                           np.arange(N) / np.arange(0, N) / np.r_[0:N] (element n is `n`)
  purely imaginary numbers                 `1j`, `0.25j`, imag * real, imag / real    (i * <real term>)
  np.exp(<imaginary>)                      a unit-modulus array given by its PHASE (radians): what is emitted
  np.exp(i ph) * root_seq                  the shifted sequence, given by its phase ramp
  Python ints                              names, literals, + - * // % divmod (Int.fdiv / Int.fmod, a zero divisor
                                           is a ZeroDivisionError leaf), comparisons
  lists of arrays                          [a], [a, b], L * k, L *= k, L.append(a), a[0:e] / a[:e], np.hstack(L) /
                                           np.concatenate(L)
  estimator terms                          np.conj, np.fft.ifft / fft (n positional or n=, axis=-1), x[np.newaxis, :],
                                           y[0:e] / y[:, 0:e], products; matched against the one accepted shape
Anything else raises TranslateError => "tie broken".
"""
import ast
import os
from fractions import Fraction

from harness.translate import HEADER, TranslateError, find_fn, parse_file
from harness.gen import norm
from harness.gen.c16 import find_class

RS = 'pyphysim/reference_signals/'


class V:
    def __init__(self, kind, lean=None, **kw):
        self.kind = kind
        self.lean = lean
        self.len = None
        self.tags = frozenset()
        self.__dict__.update(kw)

    def __repr__(self):
        return 'V(%s, %s)' % (self.kind, self.lean)


def real_lit(fr):
    if fr < 0:
        return '(-%s)' % real_lit(-fr)
    if fr.denominator == 1:
        return '((%d : Nat) : α)' % fr.numerator
    return '(((%d : Nat) : α) / ((%d : Nat) : α))' % (fr.numerator, fr.denominator)


def to_frac(v):
    if isinstance(v, bool):
        raise TranslateError('bool literal in arithmetic')
    if isinstance(v, int):
        return Fraction(v)
    fr = Fraction(v).limit_denominator(10 ** 12)
    if float(fr) != v:
        raise TranslateError('non-rational literal %r' % v)
    return fr


ARITH = {ast.Add: '+', ast.Sub: '-', ast.Mult: '*', ast.Div: '/'}
CMP = {ast.Lt: '<', ast.LtE: '≤', ast.Gt: '>', ast.GtE: '≥', ast.Eq: '=', ast.NotEq: '≠'}


class Sym:
    """symbolic executor of one function (see module docstring)"""

    def __init__(self, module, cls=None, mode='real', self_attrs=None, calls=None):
        self.module = module
        self.cls = cls                      # ClassDef of `self` (class attributes, properties, private helpers)
        self.mode = mode                    # what a Python number name / literal is: 'real' (α) or 'int' (Int)
        self.self_attrs = self_attrs or {}  # opaque attributes of self: name -> V
        self.calls = calls or {}            # public functions with a symbolic meaning: name -> fn(sym, args, kwargs)
        self.guards = []
        self.depth = 0
        self.borrowed = []                  # ids of the values a helper received from its caller (per frame)

    # ------------------------------------------------------------ numbers
    def as_real(self, v):
        if v.kind == 'lit':
            return V('real', real_lit(v.val))
        if v.kind == 'real':
            return v
        raise TranslateError('a real number is required, found ' + v.kind)

    def as_int(self, v):
        if v.kind == 'lit':
            if v.val.denominator != 1 or v.is_float:
                raise TranslateError('a Python int is required, found a float literal')
            return V('int', '(%d : Int)' % v.val if v.val >= 0 else '(-%d : Int)' % -v.val)
        if v.kind == 'int':
            return v
        raise TranslateError('a Python int is required, found ' + v.kind)

    @staticmethod
    def join_len(a, b):
        if a.len is not None and b.len is not None and a.len != b.len:
            raise TranslateError('arrays of different lengths are combined: %s / %s' % (a.len, b.len))
        return a.len if a.len is not None else b.len

    def binop(self, op, a, b):
        t = type(op)
        kinds = (a.kind, b.kind)
        tags = a.tags | b.tags
        if 'term' in kinds:
            if t is ast.Mult and all(k in ('term', 'int') for k in kinds):
                return V('term', t=('mul', a, b))
            raise TranslateError('unsupported operation on an array term')
        if kinds == ('lit', 'lit') and t in ARITH:
            if t is ast.Div:
                if b.val == 0:
                    raise TranslateError('literal division by zero')
                return V('lit', val=a.val / b.val, is_float=True)
            val = {ast.Add: a.val + b.val, ast.Sub: a.val - b.val, ast.Mult: a.val * b.val}[t]
            return V('lit', val=val, is_float=a.is_float or b.is_float)
        if t is ast.Pow and b.kind == 'lit' and b.val == 2 and not b.is_float and a.kind in ('real', 'int'):
            return V(a.kind, '(%s * %s)' % (a.lean, a.lean), len=a.len, tags=a.tags)
        if 'imag' in kinds:
            if kinds == ('imag', 'imag') or t not in (ast.Mult, ast.Div) or (t is ast.Div and b.kind == 'imag'):
                raise TranslateError('unsupported operation on an imaginary number')
            if a.kind == 'imag':
                inner = self.binop(op, a.inner, b)
            else:
                inner = self.binop(op, a, b.inner)
            return V('imag', inner=inner, len=inner.len, tags=tags)
        if set(kinds) == {'expi', 'root'} and t is ast.Mult:
            e, r = (a, b) if a.kind == 'expi' else (b, a)
            if e.len != r.len:
                raise TranslateError('the phase ramp and the root sequence have different lengths: %s / %s' % (e.len, r.len))
            return V('shifted', phase=e.phase, len=e.len)
        if kinds == ('arrlist', 'int') or kinds == ('arrlist', 'lit') and t is ast.Mult:
            return V('arrlist', '(listRepeat %s %s)' % (a.lean, self.as_int(b).lean))
        if all(k in ('int', 'lit') for k in kinds) and (self.mode == 'int' or 'int' in kinds):
            x, y = self.as_int(a), self.as_int(b)
            if t in (ast.Add, ast.Sub, ast.Mult):
                return V('int', '(%s %s %s)' % (x.lean, ARITH[t], y.lean))
            if t in (ast.FloorDiv, ast.Mod):
                self.guards.append(y.lean)
                return V('int', '(%s %s %s)' % ('Int.fdiv' if t is ast.FloorDiv else 'Int.fmod', x.lean, y.lean))
            raise TranslateError('unsupported integer operator ' + t.__name__)
        if all(k in ('real', 'lit') for k in kinds) and t in ARITH:
            x, y = self.as_real(a), self.as_real(b)
            return V('real', '(%s %s %s)' % (x.lean, ARITH[t], y.lean), len=self.join_len(a, b), tags=tags)
        raise TranslateError('unsupported operation %s on %s, %s' % (t.__name__, a.kind, b.kind))

    # ------------------------------------------------------------ expressions
    def index_array(self, n):
        """np.arange(N): element n is n"""
        if n.kind == 'real':
            return V('real', 'n', len=n.lean)
        raise TranslateError('np.arange of ' + n.kind)

    def size_of(self, v):
        if v.kind == 'root':
            return V('real', v.len)
        if v.kind == 'arr' and v.lean == 'root':
            return V('int', '(root.length : Int)')
        if v.kind == 'term' and v.t == 'r':
            return V('int', 'Nsc')
        raise TranslateError('.size of ' + v.kind)

    def slice_stop(self, sl, env):
        if not isinstance(sl, ast.Slice) or sl.step is not None or sl.upper is None:
            raise TranslateError('unsupported slice')
        if sl.lower is not None and not (isinstance(sl.lower, ast.Constant) and sl.lower.value == 0
                                         and not isinstance(sl.lower.value, bool)):
            raise TranslateError('slice must start at 0')
        return self.as_int(self.ev(sl.upper, env))

    def ev(self, e, env):
        if isinstance(e, ast.Constant):
            v = e.value
            if v is None:
                return V('none')
            if isinstance(v, bool):
                return V('boollit', val=v)
            if isinstance(v, complex):
                if v.real != 0:
                    raise TranslateError('complex literal with a real part')
                return V('imag', inner=V('lit', val=to_frac(v.imag), is_float=True))
            if isinstance(v, (int, float)):
                return V('lit', val=to_frac(v), is_float=isinstance(v, float))
            if isinstance(v, str):
                return V('str', val=v)
            raise TranslateError('unsupported literal')
        if isinstance(e, ast.Name):
            if e.id in env:
                if env[e.id].kind == 'poison':
                    raise TranslateError('`%s` is used, whose value is outside the fragment (%s)' % (e.id, env[e.id].msg))
                return env[e.id]
            return self.module_constant(e.id)
        if isinstance(e, ast.UnaryOp) and isinstance(e.op, ast.USub):
            x = self.ev(e.operand, env)
            if x.kind == 'lit':
                return V('lit', val=-x.val, is_float=x.is_float)
            if x.kind == 'imag':
                return V('imag', inner=self.neg(x.inner), len=x.len, tags=x.tags)
            return self.neg(x)
        if isinstance(e, ast.BinOp):
            return self.binop(e.op, self.ev(e.left, env), self.ev(e.right, env))
        if isinstance(e, ast.Attribute):
            return self.attribute(e, env)
        if isinstance(e, (ast.List, ast.Tuple)):
            items = [self.ev(x, env) for x in e.elts]
            if isinstance(e, ast.List) and items and all(x.kind == 'arr' for x in items):
                return V('arrlist', '[' + ', '.join(x.lean for x in items) + ']')
            return V('tuple', items=items)
        if isinstance(e, ast.Subscript):
            return self.subscript(e, env)
        if isinstance(e, ast.JoinedStr):
            if len(e.values) == 1 and isinstance(e.values[0], ast.FormattedValue) and e.values[0].conversion == -1 \
                    and e.values[0].format_spec is None:
                return V('strof', of=self.ev(e.values[0].value, env))
            raise TranslateError('unsupported f-string')
        if isinstance(e, ast.Call):
            return self.call(e, env)
        raise TranslateError('unsupported expression ' + ast.unparse(e)[:60])

    def neg(self, x):
        if x.kind == 'lit':
            return V('lit', val=-x.val, is_float=x.is_float)
        if x.kind == 'real':
            return V('real', '(-%s)' % x.lean, len=x.len, tags=x.tags)
        if x.kind == 'int':
            return V('int', '(-%s)' % x.lean)
        raise TranslateError('unary minus of ' + x.kind)

    def module_constant(self, name):
        found = [n for n in self.module.body if isinstance(n, ast.Assign) and len(n.targets) == 1
                 and isinstance(n.targets[0], ast.Name) and n.targets[0].id == name]
        stores = [n for n in ast.walk(self.module) if isinstance(n, ast.Name) and n.id == name
                  and isinstance(n.ctx, (ast.Store, ast.Del))]
        if len(found) != 1 or len(stores) != 1:
            raise TranslateError('unknown name %s (not a parameter, local or single module constant)' % name)
        if name.startswith('ROOT_TABLE'):
            return V('table', name=name)
        return self.ev(found[0].value, {})

    def attribute(self, e, env):
        u = ast.unparse(e)
        if u in env:
            return env[u]
        if u in ('np.pi', 'math.pi', 'numpy.pi'):
            return V('real', 'pi')
        if u == 'np.newaxis':
            return V('newaxis')
        if isinstance(e.value, ast.Name) and e.value.id == 'self' and self.cls is not None:
            if e.attr in self.self_attrs:
                return self.self_attrs[e.attr]
            for n in self.cls.body:
                if isinstance(n, ast.Assign) and len(n.targets) == 1 and isinstance(n.targets[0], ast.Name) \
                        and n.targets[0].id == e.attr:
                    return self.ev(n.value, {})
                if isinstance(n, ast.FunctionDef) and n.name == e.attr \
                        and [ast.unparse(d) for d in n.decorator_list] == ['property']:
                    t = self.run_fn(n, {})
                    if t[0] != 'ret':
                        raise TranslateError('property %s is not a straight line' % e.attr)
                    return t[1]
            raise TranslateError('unknown attribute self.' + e.attr)
        if e.attr == 'size':
            return self.size_of(self.ev(e.value, env))
        if e.attr == 'ndim':
            x = self.ev(e.value, env)
            if x.kind == 'term' and x.t == 'Y':
                return V('int', 'ndim')
        raise TranslateError('unsupported attribute ' + u)

    def subscript(self, e, env):
        if ast.unparse(e.value) == 'np.r_':
            if isinstance(e.slice, ast.Slice) and e.slice.step is None and e.slice.upper is not None and (
                    e.slice.lower is None or (isinstance(e.slice.lower, ast.Constant) and e.slice.lower.value == 0)):
                return self.index_array(self.ev(e.slice.upper, env))
            raise TranslateError('unsupported np.r_ form')
        base = self.ev(e.value, env)
        if base.kind == 'arr' and base.lean == 'root':
            return V('arr', '(sliceTo root %s)' % self.slice_stop(e.slice, env).lean)
        if base.kind == 'table':
            k = self.ev(e.slice, env)
            if k.kind == 'strof' and k.of.kind == 'int' and k.of.lean == 'root_index':
                return V('real', 't', tags=frozenset([base.name]))
            raise TranslateError('the table key must be the decimal string of root_index')
        if base.kind == 'term':
            if isinstance(e.slice, ast.Tuple):
                parts = e.slice.elts
                if len(parts) == 2 and ast.unparse(parts[0]) == 'np.newaxis' and ast.unparse(parts[1]) == ':':
                    return base                                   # broadcasting view of the same values
                if len(parts) == 2 and ast.unparse(parts[0]) == ':':
                    return V('term', t=('take', base, self.slice_stop(parts[1], env), '2d'))
                raise TranslateError('unsupported index ' + ast.unparse(e.slice))
            return V('term', t=('take', base, self.slice_stop(e.slice, env), '1d'))
        raise TranslateError('unsupported subscript of ' + base.kind)

    def call(self, e, env):
        name = ast.unparse(e.func)
        if any(isinstance(a, ast.Starred) for a in e.args) or any(k.arg is None for k in e.keywords):
            raise TranslateError('star arguments')
        kw = {k.arg: k.value for k in e.keywords}
        if name in self.calls:
            return self.calls[name](self, [self.ev(a, env) for a in e.args], {k: self.ev(v, env) for k, v in kw.items()})
        helper = self.lookup(e)
        if helper is not None:
            t = self.run_helper(helper, e, env)
            if t[0] != 'ret':
                raise TranslateError('helper %s with branches is called inside an expression' % helper.name)
            return t[1]
        args = [self.ev(a, env) for a in e.args]
        if name in ('np.arange', 'numpy.arange') and not kw:
            if len(args) == 2 and args[0].kind == 'lit' and args[0].val == 0 and not args[0].is_float:
                args = args[1:]
            if len(args) == 1:
                return self.index_array(args[0])
        if name in ('np.exp', 'numpy.exp') and len(args) == 1 and not kw and args[0].kind == 'imag':
            ph = self.as_real(args[0].inner)
            return V('expi', phase=ph, len=args[0].len, tags=args[0].tags)
        if name == 'len' and len(args) == 1 and not kw:
            return self.size_of(args[0])
        if name == 'int' and len(args) == 1 and not kw and args[0].kind == 'int':
            return args[0]
        if name == 'divmod' and len(args) == 2 and not kw:
            x, y = self.as_int(args[0]), self.as_int(args[1])
            self.guards.append(y.lean)
            return V('tuple', items=[V('int', '(Int.fdiv %s %s)' % (x.lean, y.lean)),
                                     V('int', '(Int.fmod %s %s)' % (x.lean, y.lean))])
        if name in ('np.hstack', 'np.concatenate') and len(args) == 1 and not kw and args[0].kind == 'arrlist':
            return V('arr', '(%s).flatten' % args[0].lean)
        if name in ('np.conj', 'np.conjugate') and len(args) == 1 and not kw and args[0].kind == 'term':
            return V('term', t=('conj', args[0]))
        if name in ('np.fft.ifft', 'np.fft.fft') and args and args[0].kind == 'term':
            if 'axis' in kw:
                ax = self.ev(kw.pop('axis'), env)
                if not (ax.kind == 'lit' and ax.val == -1):
                    raise TranslateError('FFT along another axis than the last')
            n = args[1] if len(args) == 2 else (self.ev(kw.pop('n'), env) if 'n' in kw else None)
            if n is None or kw or len(args) > 2:
                raise TranslateError('unsupported FFT call ' + ast.unparse(e)[:60])
            return V('term', t=(name.split('.')[-1], args[0], self.as_int(n)))
        if isinstance(e.func, ast.Attribute) and e.func.attr == 'format' and len(args) == 1 and not kw:
            s = self.ev(e.func.value, env)
            if s.kind == 'str' and s.val in ('{0}', '{}', '{0:d}', '{:d}'):
                return V('strof', of=args[0])
        raise TranslateError('unsupported call ' + ast.unparse(e)[:60])

    # ------------------------------------------------------------ helpers
    def lookup(self, call):
        lk = norm.private_lookup(module=self.module, classes=(self.cls,) if self.cls is not None else ())
        return lk(call)

    def run_helper(self, fn, call, env):
        if self.depth > 4:
            raise TranslateError('helper nesting too deep / recursive: ' + fn.name)
        params = norm.helper_params(fn, call)
        inner = {p_: self.ev(a, env) for p_, a in params.items()}
        if any(v.kind == 'arrlist' for v in inner.values()):
            raise TranslateError('a Python list is passed to a helper (it could be mutated there)')
        self.depth += 1
        self.borrowed.append([id(v) for v in inner.values()])
        try:
            return self.run_fn(fn, inner)
        finally:
            self.borrowed.pop()
            self.depth -= 1

    def run_fn(self, fn, env):
        return self.run(norm.canon_fn(fn).body, dict(env))

    # ------------------------------------------------------------ conditions
    def cond(self, e, env):
        """True / False (decided at translation time) or a Lean proposition (text)"""
        if isinstance(e, ast.BoolOp):
            parts = [self.cond(x, env) for x in e.values]
            if isinstance(e.op, ast.And):
                if any(p_ is False for p_ in parts):
                    return False
                parts = [p_ for p_ in parts if p_ is not True]
                return True if not parts else '(' + ' ∧ '.join(parts) + ')'
            if any(p_ is True for p_ in parts):
                return True
            parts = [p_ for p_ in parts if p_ is not False]
            return False if not parts else '(' + ' ∨ '.join(parts) + ')'
        if isinstance(e, ast.UnaryOp) and isinstance(e.op, ast.Not):
            c = self.cond(e.operand, env)
            return (not c) if isinstance(c, bool) else '(¬ %s)' % c
        if isinstance(e, ast.Compare) and len(e.ops) == 1:
            a, b, op = self.ev(e.left, env), self.ev(e.comparators[0], env), type(e.ops[0])
            if op in (ast.Is, ast.IsNot):
                if b.kind == 'none' and a.kind in ('int', 'none'):
                    return (a.kind == 'none') == (op is ast.Is)
                if b.kind == 'boollit' and a.kind == 'bool':
                    return '(%s = %s)' % (a.lean, 'true' if b.val == (op is ast.Is) else 'false')
                raise TranslateError('unsupported identity test ' + ast.unparse(e))
            if op in CMP and all(x.kind in ('int', 'lit') for x in (a, b)):
                return '(%s %s %s)' % (self.as_int(a).lean, CMP[op], self.as_int(b).lean)
            raise TranslateError('unsupported comparison ' + ast.unparse(e))
        v = self.ev(e, env)
        if v.kind == 'bool':
            return '(%s = true)' % v.lean
        raise TranslateError('unsupported condition ' + ast.unparse(e)[:60])

    # ------------------------------------------------------------ statements
    def guarded(self, k, tree_fn):
        """wrap the continuation in the zero-divisor checks raised while evaluating the current statement"""
        new = self.guards[k:]
        del self.guards[k:]
        t = tree_fn()
        for g in reversed(new):
            t = ('guard', g, t)
        return t

    def assign(self, env, target, v):
        if v.kind == 'arrlist' and any(o is v for o in env.values()):
            # `b = a; b.append(x)` would change `a` too: values are immutable here, so an alias is refused
            raise TranslateError('a second name for the same Python list (aliasing is outside the fragment)')
        env = dict(env)
        if isinstance(target, ast.Name):
            env[target.id] = v
        elif isinstance(target, ast.Attribute) and isinstance(target.value, ast.Name) and target.value.id == 'self':
            env[ast.unparse(target)] = v
        elif isinstance(target, ast.Tuple) and v.kind == 'tuple' and len(target.elts) == len(v.items):
            for t, x in zip(target.elts, v.items):
                env = self.assign(env, t, x)
        else:
            raise TranslateError('unsupported assignment target ' + ast.unparse(target))
        return env

    def run(self, stmts, env):
        if not stmts:
            return ('ret', V('none'), env)
        s, rest = stmts[0], stmts[1:]
        if norm.is_doc(s) or isinstance(s, (ast.Pass, ast.Assert)):
            return self.run(rest, env)
        k = len(self.guards)
        if isinstance(s, (ast.Assign, ast.AnnAssign, ast.Return)) and isinstance(s.value, ast.Call) \
                and self.lookup(s.value) is not None and ast.unparse(s.value.func) not in self.calls:
            # a private helper at statement level may be a decision tree: continue in each of its leaves
            t = self.run_helper(self.lookup(s.value), s.value, env)

            def leaves(t):
                if t[0] == 'ret':
                    if isinstance(s, ast.Return):
                        return ('ret', t[1], env)
                    tg = s.targets[0] if isinstance(s, ast.Assign) else s.target
                    return self.run(rest, self.assign(env, tg, t[1]))
                if t[0] == 'raise':
                    return t
                if t[0] == 'guard':
                    return ('guard', t[1], leaves(t[2]))
                return ('if', t[1], leaves(t[2]), leaves(t[3]))
            return self.guarded(k, lambda: leaves(t))
        if isinstance(s, ast.Assign) and len(s.targets) == 1:
            try:
                v = self.ev(s.value, env)
            except TranslateError as ex:
                # a local outside the fragment is fatal only if a translated value USES it (e.g. a value that
                # only feeds an `assert`): every operation on a 'poison' value raises
                if not isinstance(s.targets[0], ast.Name):
                    raise
                del self.guards[k:]
                v = V('poison', msg=str(ex))
            return self.guarded(k, lambda: self.run(rest, self.assign(env, s.targets[0], v)))
        if isinstance(s, ast.AnnAssign) and s.value is not None:
            v = self.ev(s.value, env)
            return self.guarded(k, lambda: self.run(rest, self.assign(env, s.target, v)))
        if isinstance(s, ast.AugAssign) and isinstance(s.target, ast.Name):
            cur = self.ev(s.target, env)
            if cur.kind in ('term', 'arr', 'root', 'expi', 'shifted') or (cur.kind == 'real' and cur.len is not None):
                # numpy updates the array IN PLACE: every other name of it (and the caller's argument) changes too
                if sum(1 for o in env.values() if o is cur) != 1 or cur.kind in ('arr', 'root') \
                        or (cur.kind == 'term' and cur.t in ('r', 'Y')) \
                        or any(id(cur) in fr for fr in self.borrowed):
                    raise TranslateError('in-place update of an array that has another name / is an argument')
            v = self.binop(s.op, cur, self.ev(s.value, env))
            return self.guarded(k, lambda: self.run(rest, self.assign(env, s.target, v)))
        if isinstance(s, ast.Expr) and isinstance(s.value, ast.Call) and isinstance(s.value.func, ast.Attribute) \
                and s.value.func.attr == 'append' and isinstance(s.value.func.value, ast.Name) \
                and len(s.value.args) == 1 and not s.value.keywords:
            lst, x = self.ev(s.value.func.value, env), self.ev(s.value.args[0], env)
            if lst.kind != 'arrlist' or x.kind != 'arr':
                raise TranslateError('unsupported append')
            v = V('arrlist', '(%s ++ [%s])' % (lst.lean, x.lean))
            return self.guarded(k, lambda: self.run(rest, self.assign(env, s.value.func.value, v)))
        if isinstance(s, ast.If):
            c = self.cond(s.test, env)
            if c is True:
                return self.guarded(k, lambda: self.run(list(s.body) + rest, env))
            if c is False:
                return self.guarded(k, lambda: self.run(list(s.orelse) + rest, env))
            return self.guarded(k, lambda: ('if', c, self.run(list(s.body) + rest, env),
                                            self.run(list(s.orelse) + rest, env)))
        if isinstance(s, ast.Return):
            v = self.ev(s.value, env) if s.value is not None else V('none')
            return self.guarded(k, lambda: ('ret', v, env))
        if isinstance(s, ast.Raise):
            exc = s.exc.func if isinstance(s.exc, ast.Call) else s.exc
            if not isinstance(exc, ast.Name):
                raise TranslateError('unsupported raise')
            return ('raise', exc.id)
        raise TranslateError('unsupported statement ' + ast.unparse(s)[:60])


def render(t, leaf, ind='  '):
    """Lean text of a decision tree (`leaf(value, env)` renders a returned value)"""
    if t[0] == 'ret':
        return ind + leaf(t[1], t[2])
    if t[0] == 'raise':
        return ind + '.error .%s' % t[1]
    if t[0] == 'guard':
        return ind + 'if %s = 0 then .error .ZeroDivisionError else\n%s' % (t[1], render(t[2], leaf, ind))
    return '%sif %s then\n%s\n%selse\n%s' % (ind, t[1], render(t[2], leaf, ind + '  '), ind, render(t[3], leaf, ind + '  '))


def straight(t, what):
    if t[0] != 'ret':
        raise TranslateError('%s: the value depends on a branch / may raise' % what)
    return t[1]


def params_of(fn, expect):
    got = [a.arg for a in fn.args.args]
    if got != expect or fn.args.vararg or fn.args.kwarg or fn.args.kwonlyargs or fn.args.posonlyargs:
        raise TranslateError('%s: parameters %s, expected %s' % (fn.name, got, expect))


RCLS = '{α : Type} [Add α] [Sub α] [Mul α] [Div α] [Neg α] [NatCast α]'


# ---------------------------------------------------------------- zadoffchu.py
def gen_zadoffchu(repo, out):
    tree = parse_file(os.path.join(repo, RS + 'zadoffchu.py'))
    rv = lambda n, **kw: V('real', n, **kw)
    # calcBaseZC
    f = find_fn(tree, 'calcBaseZC')
    params_of(f, ['Nzc', 'u', 'q'])
    v = straight(Sym(tree).run_fn(f, {'Nzc': rv('Nzc'), 'u': rv('u'), 'q': rv('q')}), 'calcBaseZC')
    if v.kind != 'expi' or v.len is None:
        raise TranslateError('calcBaseZC does not return np.exp(1j * <real phase over np.arange(..)>)')
    out.append('/-- `calcBaseZC(Nzc, u, q)[n] = exp(i * zcPhase pi Nzc u q n)` for `n = 0 .. zcLength Nzc - 1` -/\n'
               'def zcPhase %s (pi Nzc u q n : α) : α :=\n  %s\n' % (RCLS, v.phase.lean))
    out.append('def zcLength %s (Nzc : α) : α :=\n  %s\n' % (RCLS, v.len))
    # get_shifted_root_seq
    f = find_fn(tree, 'get_shifted_root_seq')
    params_of(f, ['root_seq', 'n_cs', 'denominator'])
    v = straight(Sym(tree).run_fn(f, {'root_seq': V('root', len='root_size'), 'n_cs': rv('n_cs'),
                                      'denominator': rv('denominator')}), 'get_shifted_root_seq')
    if v.kind != 'shifted' or v.len != 'root_size':
        raise TranslateError('get_shifted_root_seq does not return np.exp(1j * <phase ramp>) * root_seq')
    out.append('/-- `get_shifted_root_seq(root_seq, n_cs, denominator)[n] = exp(i * shiftPhase ..) * root_seq[n]`,\n'
               '    `n = 0 .. root_seq.size - 1` -/\n'
               'def shiftPhase %s (pi n_cs denominator n : α) : α :=\n  %s\n' % (RCLS, v.phase.lean))
    # get_extended_ZF
    f = find_fn(tree, 'get_extended_ZF')
    params_of(f, ['root_seq', 'size'])
    sym = Sym(tree, mode='int')
    t = sym.run_fn(f, {'root_seq': V('arr', 'root'), 'size': V('int', 'size')})

    def leaf(v, env):
        if v.kind != 'arr':
            raise TranslateError('get_extended_ZF returns %s, not an array built from root_seq' % v.kind)
        return '.ok %s' % v.lean
    out.append('/-- `get_extended_ZF(root_seq, size)` -/\n'
               'def extendedZF {β : Type} (root : List β) (size : Int) : Except PyErr (List β) :=\n%s\n' % render(t, leaf))


def shift_call(sym, args, kw):
    names = ['root_seq', 'n_cs', 'denominator']
    full = dict(zip(names, args))
    for k, v in kw.items():
        if k not in names or k in full:
            raise TranslateError('get_shifted_root_seq: bad keyword ' + k)
        full[k] = v
    if sorted(full) != sorted(names) or full['root_seq'].kind != 'root' or full['n_cs'].lean != 'n_cs' \
            or full['n_cs'].kind != 'real':
        raise TranslateError('get_shifted_root_seq must be called with (root_seq, n_cs, <denominator>)')
    d = full['denominator']
    if d.kind != 'lit' or d.is_float or d.val.denominator != 1 or d.val <= 0:
        raise TranslateError('the shift denominator is not a positive int literal')
    return V('shiftcall', d=int(d.val))


def gen_denominators(repo, out):
    for mod, fn, name in (('srs.py', 'get_srs_seq', 'srsDenominator'), ('dmrs.py', 'get_dmrs_seq', 'dmrsDenominator')):
        tree = parse_file(os.path.join(repo, RS + mod))
        imp = [n for n in tree.body if isinstance(n, ast.ImportFrom) and n.module == 'zadoffchu' and n.level == 1
               and any(a.name == 'get_shifted_root_seq' and a.asname is None for a in n.names)]
        if len(imp) != 1:
            raise TranslateError(mod + ': get_shifted_root_seq is not imported from .zadoffchu')
        f = find_fn(tree, fn)
        params_of(f, ['root_seq', 'n_cs'])
        sym = Sym(tree, calls={'get_shifted_root_seq': shift_call})
        v = straight(sym.run_fn(f, {'root_seq': V('root', len='root_size'), 'n_cs': V('real', 'n_cs')}), fn)
        if v.kind != 'shiftcall':
            raise TranslateError(fn + ' does not return get_shifted_root_seq(root_seq, n_cs, <literal>)')
        out.append('/-- `%s(root_seq, n_cs) = get_shifted_root_seq(root_seq, n_cs, %s)` -/\ndef %s : Nat := %d\n'
                   % (fn, name, name, v.d))


# ---------------------------------------------------------------- root_sequence.py
def gen_size_rule(repo, out):
    tree = parse_file(os.path.join(repo, RS + 'root_sequence.py'))
    cls = find_class(tree, 'RootSequence')
    f = find_fn(tree, '__init__', 'RootSequence')
    params_of(f, ['self', 'root_index', 'size', 'Nzc'])

    def zc_call(sym, args, kw):
        if kw or len(args) != 2 or [a.kind for a in args] != ['int', 'int'] or [a.lean for a in args] != ['Nzc', 'root_index']:
            raise TranslateError('calcBaseZC must be called as calcBaseZC(Nzc, root_index)')
        return V('zcbase')

    def ext_call(sym, args, kw):
        if kw or len(args) != 2 or args[0].kind != 'zcbase' or args[1].kind != 'int' or args[1].lean != 'size':
            raise TranslateError('get_extended_ZF must be called as get_extended_ZF(<the Zadoff-Chu sequence>, size)')
        return V('extended')
    for fn in ('calcBaseZC', 'get_extended_ZF'):
        imp = [n for n in tree.body if isinstance(n, ast.ImportFrom) and n.module == 'zadoffchu' and n.level == 1
               and any(a.name == fn and a.asname is None for a in n.names)]
        if len(imp) != 1:
            raise TranslateError('root_sequence.py: %s is not imported from .zadoffchu' % fn)
    sym = Sym(tree, cls=cls, mode='int', calls={'calcBaseZC': zc_call, 'get_extended_ZF': ext_call})
    t = sym.run_fn(f, {'root_index': V('int', 'root_index'), 'size': V('int', 'size'), 'Nzc': V('int', 'Nzc')})
    phases = set()

    def leaf(v, env):
        seq, ext = env.get('self._seq_array'), env.get('self._extended_seq_array')
        if v.kind != 'none' or seq is None or ext is None:
            raise TranslateError('RootSequence.__init__: unexpected end state')
        if seq.kind == 'zcbase' and ext.kind in ('none', 'extended'):
            return '.ok (.zc %s)' % ('true' if ext.kind == 'extended' else 'false')
        if seq.kind == 'expi' and ext.kind == 'none' and seq.tags in (frozenset(['ROOT_TABLE1']), frozenset(['ROOT_TABLE2'])):
            phases.add(seq.phase.lean)
            return '.ok .table%s' % list(seq.tags)[0][-1]
        raise TranslateError('RootSequence.__init__: unrecognised sequence in a branch')
    body = render(t, leaf)
    if len(phases) != 1:
        raise TranslateError('the two table branches use different phase formulas: %s' % sorted(phases))
    out.append('/-- which sequence `RootSequence(root_index, size, Nzc)` builds once `size` and `Nzc` are ints\n'
               '    (`.zc ext`: `calcBaseZC(Nzc, root_index)`, cyclically extended to `size` iff `ext`) -/\n'
               'def sizeRule (size Nzc : Int) : Except PyErr SizeBranch :=\n%s\n' % body)
    out.append('/-- table branches: element `exp(i * tablePhase pi t)` for the table entry `t` -/\n'
               'def tablePhase %s (pi t : α) : α :=\n  %s\n' % (RCLS, phases.pop()))


# ---------------------------------------------------------------- channel_estimation.py
def gen_estimator(repo, out):
    tree = parse_file(os.path.join(repo, RS + 'channel_estimation.py'))
    cls = find_class(tree, 'CazacBasedChannelEstimator')
    f = find_fn(tree, 'estimate_channel_freq_domain', 'CazacBasedChannelEstimator')
    params_of(f, ['self', 'received_signal', 'num_taps_to_keep'])
    attrs = {'_ue_ref_sequence': V('term', t='r'), '_size_multiplier': V('int', 'size_multiplier'),
             '_normalized_ref_seq': V('bool', 'normalized')}
    sym = Sym(tree, cls=cls, mode='int', self_attrs=attrs)
    t = sym.run_fn(f, {'received_signal': V('term', t='Y'), 'num_taps_to_keep': V('int', 'num_taps_to_keep')})
    found = {}

    def put(key, val):
        if found.setdefault(key, val) != val:
            raise TranslateError('estimator: the branches disagree on %s: %s / %s' % (key, found[key], val))

    def is_derot(x):
        if x.kind != 'term' or x.t[0] != 'mul':
            return False
        a, b = x.t[1], x.t[2]
        pat = lambda p, q: p.kind == 'term' and p.t[0] == 'conj' and p.t[1].kind == 'term' and p.t[1].t == 'r' \
            and q.kind == 'term' and q.t == 'Y'
        return pat(a, b) or pat(b, a)

    def walk(t, path):
        if t[0] == 'guard':
            raise TranslateError('estimator: integer division is not part of the accepted shape')
        if t[0] == 'if':
            walk(t[2], path + [(t[1], True)])
            walk(t[3], path + [(t[1], False)])
            return
        pos = [c for c, b in path if b]
        neg = [c for c, b in path if not b]
        dim = '1d' if '(ndim = (1 : Int))' in pos else ('2d' if '(ndim = (2 : Int))' in pos else None)
        if t[0] == 'raise':
            if dim is not None or t[1] != 'ValueError' or not {'(ndim = (1 : Int))', '(ndim = (2 : Int))'} <= set(neg):
                raise TranslateError('estimator: unexpected raise')
            found['raise'] = True
            return
        v = t[1]
        normalized = '(normalized = true)' in pos
        if dim is None or ('(normalized = true)' not in pos + neg):
            raise TranslateError('estimator: a result that does not depend on ndim / the normalisation flag')
        if normalized:
            if v.kind != 'term' or v.t[0] != 'mul':
                raise TranslateError('estimator: normalised branch is not a product')
            a, b = v.t[1], v.t[2]
            h, s = (a, b) if a.kind == 'term' else (b, a)
            if s.kind != 'int':
                raise TranslateError('estimator: normalisation factor is not an integer expression')
            put('scale', ('(H * %s)' if h is a else '(%s * H)') % ('(%s : α)' % s.lean.replace('Nsc', 'NscA')
                                                                  if s.lean == 'Nsc' else None))
            if s.lean != 'Nsc':
                raise TranslateError('estimator: the normalisation factor must be r.size, found ' + s.lean)
            v = h
        if v.kind != 'term' or v.t[0] != 'fft':
            raise TranslateError('estimator: the result is not np.fft.fft(<kept taps>, <size>)')
        put('fft', v.t[2].lean)
        tk = v.t[1]
        if tk.kind != 'term' or tk.t[0] != 'take' or tk.t[3] != dim:
            raise TranslateError('estimator: the FFT input is not y[0:k] along the last axis')
        put('taps', tk.t[2].lean)
        y = tk.t[1]
        if y.kind != 'term' or y.t[0] != 'ifft' or not is_derot(y.t[1]):
            raise TranslateError('estimator: y is not np.fft.ifft(np.conj(r) * received_signal, <size>)')
        put('ifft', y.t[2].lean)
        found[dim, normalized] = True
    walk(t, [])
    need = [('1d', True), ('1d', False), ('2d', True), ('2d', False), 'raise', 'scale', 'fft', 'taps', 'ifft']
    if any(k not in found for k in need):
        raise TranslateError('estimator: missing branch ' + str([k for k in need if k not in found]))
    out.append('/-- `estimate_channel_freq_domain`: `y = ifft(conj(r) * Y, ifftSize)`; `tilde_h = y[.., 0:keptTaps]`;\n'
               '    `tilde_H = fft(tilde_h, fftSize)`; each element `H` becomes `normScale normalized Nsc H` -/\n'
               'def ifftSize (size_multiplier Nsc num_taps_to_keep : Int) : Int :=\n  %s\n' % found['ifft'])
    out.append('def keptTaps (size_multiplier Nsc num_taps_to_keep : Int) : Int :=\n  %s\n' % found['taps'])
    out.append('def fftSize (size_multiplier Nsc num_taps_to_keep : Int) : Int :=\n  %s\n' % found['fft'])
    out.append('def normScale {α : Type} [Mul α] (normalized : Bool) (NscA H : α) : α :=\n  if normalized then %s else H\n'
               % found['scale'].replace('(NscA : α)', 'NscA'))


def gen(repo):
    out = []
    gen_zadoffchu(repo, out)
    gen_denominators(repo, out)
    gen_size_rule(repo, out)
    gen_estimator(repo, out)
    src = ', '.join(RS + m for m in ('zadoffchu.py', 'srs.py', 'dmrs.py', 'root_sequence.py', 'channel_estimation.py'))
    return (HEADER % (src + ' (sequence / estimator formulas)')
            + 'import PyPhysim.Model.C18Py\nset_option linter.unusedVariables false\n'
            + 'namespace PyPhysim.Generated.C18\nopen PyPhysim.Proto (PyErr)\nopen PyPhysim.C18Py\n\n'
            + '\n'.join(out) + '\nend PyPhysim.Generated.C18\n')


TARGETS = {'C18Formulas': gen}
