"""Writes MANIFEST.json from the table below (keeps it schema-valid at all times)."""
import json
import os

VERIF = os.path.dirname(os.path.dirname(os.path.abspath(__file__)))
BASELINE = ('cd /repo && /venv/bin/python -m pytest -ra -q -p no:cacheprovider --timeout=900 '
            '--continue-on-collection-errors')

# id -> (technique, level text, level note)
CLAIMED = {}

# properties whose checks have been integrated and validated on the clean tree
INTEGRATED = ['C01', 'C02', 'C03', 'C04', 'C05', 'C06', 'C07', 'C08', 'C09', 'C10', 'C11', 'C12', 'C13', 'C14', 'C15', 'C16', 'C17', 'C18', 'C19', 'C20']

PENDING_REASON = 'check not built yet at this commit (planned in DESIGN.md §5; no other technique is substituted)'


def collect_claims():
    """CLAIM = {'technique':..,'text':..,'note':..} literals in harness/props/cNN.py"""
    import ast
    d = os.path.join(VERIF, 'harness', 'props')
    for fn in sorted(os.listdir(d)):
        if not (fn.startswith('c') and fn.endswith('.py')):
            continue
        if fn[:-3].upper() not in INTEGRATED:
            continue
        tree = ast.parse(open(os.path.join(d, fn)).read())
        for n in tree.body:
            if isinstance(n, ast.Assign) and getattr(n.targets[0], 'id', None) == 'CLAIM':
                c = ast.literal_eval(n.value)
                if fn[:-3].upper() in INTEGRATED:
                    CLAIMED[fn[:-3].upper()] = (c['technique'], c['text'], c['note'])


def _regenerated():
    """properties whose check passes generated modules to core.prove (read from the property modules)"""
    import glob, os, re
    out = set()
    here = os.path.dirname(os.path.abspath(__file__))
    for fn in glob.glob(os.path.join(here, 'props', 'c[0-9][0-9].py')):
        src = open(fn).read()
        m = re.search(r'generated\s*=\s*(\[[^\]]*\]|GENERATED)', src)
        if m and m.group(1) != '[]':
            out.add(os.path.basename(fn)[:-3].upper())
    return out


def main():
    collect_claims()
    props = [json.loads(l) for l in open(os.path.join(VERIF, 'properties.jsonl'))]
    checks, na = [], []
    for p in props:
        pid = p['id']
        if pid in CLAIMED:
            tech, text, note = CLAIMED[pid]
            checks.append({
                'property_id': pid,
                'quick_cmd': './check %s --tier quick' % pid,
                'thorough_cmd': './check %s --tier thorough' % pid,
                'evidence_file': 'evidence/%s.json' % pid,
                'replay_cmd_template': './check %s --replay {path}' % pid,
                'engine': 'lean',
                'level_claimed': {'category': 'proof', 'text': text, 'design_ref': 'DESIGN.md §5 ' + pid},
                'level_note': note,
                'technique': tech,
            })
        else:
            na.append({'property_id': pid, 'reason': PENDING_REASON})
    m = {
        'version': 1,
        'setup_cmd': './setup.sh',
        'hooks': {
            'guard': 'PYPHYSIM_VERIF',
            'enable': 'none needed: all instrumentation is done from the harness by subclassing / monkeypatching; '
                      'the harness sets PYPHYSIM_VERIF=1 but no source line reads it',
            'baseline_off_cmd': BASELINE,
            'source_commits': [],
            'add_only': True,
        },
        'engines': [
            {'name': 'lean', 'path': 'lean', 'serves_properties': sorted(CLAIMED),
             'kind_free_text': 'Lean 4 project: executable models, generated definitions, proofs, property theorems, '
                               'compiled line-protocol drivers'},
            {'name': 'translator', 'path': 'harness/translate.py',
             'serves_properties': sorted(p for p in CLAIMED if p in _regenerated()),
             'kind_free_text': 'Python AST -> Lean translator (harness/translate.py: integer fragment; plugins '
                               'harness/gen/*.py: real-expression formulas, index idioms, literal tables, symbolic '
                               'execution of Result / doWF into normal forms, effect tables of the cache classes); '
                               'regenerates lean/PyPhysim/Generated on every run; bridge theorems in Properties/ prove '
                               'the regenerated definitions equal to the hand models'},
            {'name': 'harness', 'path': 'harness', 'serves_properties': sorted(CLAIMED),
             'kind_free_text': 'correspondence (differential) harness, property oracles, verdict and evidence writer'},
        ],
        'checks': checks,
        'not_applicable': na,
        'notes': 'Technique family: machine-checked proof in Lean 4. See DESIGN.md. Fix commits in /repo and known '
                 'findings are listed in known_findings.json.',
    }
    with open(os.path.join(VERIF, 'MANIFEST.json'), 'w') as f:
        json.dump(m, f, indent=1)
        f.write('\n')


if __name__ == '__main__':
    main()
