"""Shared machinery of the /verif checks (see DESIGN.md §3).

 * repo import guard (the /venv has an installed copy of pyphysim that shadows
   /repo unless sys.path is forced)
 * one SplitMix64 PRNG stream derived from VERIF_SEED
 * driver pipe to the compiled Lean model (line protocol)
 * translator + lake build + axiom audit  (proof obligations)
 * verdict logic: known findings, VIOLATION lines, replay files, evidence
"""
import hashlib
import json
import os
import re
import struct
import subprocess
import sys
import time

VERIF = os.path.dirname(os.path.dirname(os.path.abspath(__file__)))
LEAN_DIR = os.path.join(VERIF, 'lean')
REPO = os.environ.get('PYPHYSIM_REPO', '/repo')
ALLOWED_AXIOMS = {'propext', 'Classical.choice', 'Quot.sound'}
FORBIDDEN = re.compile(r'\b(sorry|admit|native_decide|bv_decide|implemented_by|unsafe)\b|^\s*axiom\s|maxHeartbeats\s+0\b')


class Infra(Exception):
    """Infrastructure problem (exit 2), never a property verdict."""


def import_repo():
    """Make `import pyphysim` resolve to the working tree under test."""
    if sys.path[0] != REPO:
        sys.path.insert(0, REPO)
    os.environ.setdefault('PYPHYSIM_VERIF', '1')
    import pyphysim  # noqa
    f = os.path.realpath(pyphysim.__file__)
    if not f.startswith(os.path.realpath(REPO) + os.sep):
        raise Infra('pyphysim imported from %s, not from %s' % (f, REPO))
    return pyphysim


# --------------------------------------------------------------------- PRNG
class Rng:
    """SplitMix64; every random choice of a run derives from VERIF_SEED."""
    M = (1 << 64) - 1

    def __init__(self, seed, stream=''):
        h = hashlib.sha256(('%d/%s' % (seed, stream)).encode()).digest()
        self.s = int.from_bytes(h[:8], 'little')

    def u64(self):
        self.s = (self.s + 0x9E3779B97F4A7C15) & self.M
        z = self.s
        z = ((z ^ (z >> 30)) * 0xBF58476D1CE4E5B9) & self.M
        z = ((z ^ (z >> 27)) * 0x94D049BB133111EB) & self.M
        return z ^ (z >> 31)

    def below(self, n):
        return self.u64() % n

    def randint(self, a, b):
        """inclusive"""
        return a + self.below(b - a + 1)

    def choice(self, seq):
        return seq[self.below(len(seq))]

    def uniform(self, a=0.0, b=1.0):
        return a + (b - a) * (self.u64() >> 11) / float(1 << 53)

    def chance(self, p):
        return self.uniform() < p

    def gauss(self):
        import math
        u1 = max(self.uniform(), 1e-300)
        u2 = self.uniform()
        return math.sqrt(-2.0 * math.log(u1)) * math.cos(2 * math.pi * u2)

    def shuffle(self, lst):
        for i in range(len(lst) - 1, 0, -1):
            j = self.below(i + 1)
            lst[i], lst[j] = lst[j], lst[i]

    def fork(self, name):
        return Rng(self.u64(), name)


# ------------------------------------------------------------ float transport
def f2s(x):
    return 'f%d' % struct.unpack('<Q', struct.pack('<d', float(x)))[0]


def s2f(s):
    assert s[0] == 'f', s
    return struct.unpack('<d', struct.pack('<Q', int(s[1:])))[0]


def close(a, b, rtol=1e-9, atol=0.0):
    return abs(a - b) <= atol + rtol * max(1.0, abs(a), abs(b))


# ------------------------------------------------------------------ build
def run(cmd, cwd=None, timeout=3600, env=None):
    p = subprocess.run(cmd, cwd=cwd, stdout=subprocess.PIPE, stderr=subprocess.STDOUT,
                       timeout=timeout, env=env, text=True)
    return p.returncode, p.stdout


def lake_build(targets, timeout=3000):
    """Returns (ok, output)."""
    try:
        rc, out = run(['lake', 'build'] + list(targets), cwd=LEAN_DIR, timeout=timeout)
    except subprocess.TimeoutExpired:
        raise Infra('lake build timed out')
    return rc == 0, out


def theorem_names(module):
    """Names of the theorems declared in a Properties module (text scan)."""
    path = os.path.join(LEAN_DIR, module.replace('.', '/') + '.lean')
    with open(path) as f:
        src = f.read()
    src_nc = strip_comments(src)
    ns = re.findall(r'^namespace\s+(\S+)', src_nc, re.M)
    prefix = (ns[0] + '.') if ns else ''
    return [prefix + m for m in re.findall(r'^\s*theorem\s+([A-Za-z_][\w\.\']*)', src_nc, re.M)]


def strip_comments(src):
    src = re.sub(r'/-.*?-/', '', src, flags=re.S)
    return re.sub(r'--.*', '', src)


def forbidden_scan(paths):
    """grep the Lean sources for escape hatches outside comments."""
    hits = []
    for p in paths:
        with open(p) as f:
            src = strip_comments(f.read())
        for i, line in enumerate(src.split('\n')):
            if FORBIDDEN.search(line):
                hits.append('%s: %s' % (os.path.relpath(p, LEAN_DIR), line.strip()[:100]))
    return hits


def lean_sources():
    out = []
    for root, _, files in os.walk(os.path.join(LEAN_DIR, 'PyPhysim')):
        out += [os.path.join(root, f) for f in files if f.endswith('.lean')]
    for root, _, files in os.walk(os.path.join(LEAN_DIR, 'Drivers')):
        out += [os.path.join(root, f) for f in files if f.endswith('.lean')]
    return sorted(out)


def import_closure(roots):
    """project-local Lean files reachable from the given modules through `import` lines"""
    seen, todo = set(), list(roots)
    while todo:
        m = todo.pop()
        if m in seen:
            continue
        path = os.path.join(LEAN_DIR, m.replace('.', '/') + '.lean')
        if not os.path.exists(path):
            continue
        seen.add(m)
        with open(path) as f:
            for line in f:
                mm = re.match(r'\s*import\s+((?:PyPhysim|Drivers)\.\S+)', line)
                if mm:
                    todo.append(mm.group(1))
    return sorted(os.path.join(LEAN_DIR, m.replace('.', '/') + '.lean') for m in seen)


def audit_axioms(module, scratch):
    """#print axioms for every theorem of `module`.
    Returns {theorem: [axioms]} ; raises Infra if lean cannot run it."""
    names = theorem_names(module)
    path = os.path.join(scratch, 'Audit_%s.lean' % module.split('.')[-1])
    with open(path, 'w') as f:
        f.write('import %s\n' % module)
        for n in names:
            f.write('#print axioms %s\n' % n)
    rc, out = run(['lake', 'env', 'lean', path], cwd=LEAN_DIR, timeout=1200)
    res = {}
    # "'name' depends on axioms: [a, b]"  or  "'name' does not depend on any axioms"
    for m in re.finditer(r"'([^']+)' depends on axioms: \[([^\]]*)\]", out, re.S):
        res[m.group(1)] = [a.strip() for a in m.group(2).replace('\n', ' ').split(',') if a.strip()]
    for m in re.finditer(r"'([^']+)' does not depend on any axioms", out):
        res[m.group(1)] = []
    missing = [n for n in names if n not in res]
    return res, missing, out


# ------------------------------------------------------------------ driver
class Driver:
    """Pipe to a compiled Lean model driver (.lake/build/bin/<name>)."""

    def __init__(self, name):
        self.name = name
        self.path = os.path.join(LEAN_DIR, '.lake', 'build', 'bin', name)

    def ask(self, lines, timeout=1800):
        if not lines:
            return []
        if not os.path.exists(self.path):
            raise Infra('driver %s not built' % self.path)
        data = '\n'.join(lines) + '\n'
        try:
            p = subprocess.run([self.path], input=data, stdout=subprocess.PIPE, stderr=subprocess.PIPE,
                               timeout=timeout, text=True)
        except subprocess.TimeoutExpired:
            raise Infra('driver timed out')
        out = p.stdout.split('\n')
        if out and out[-1] == '':
            out.pop()
        if p.returncode != 0 or len(out) != len(lines):
            raise Infra('driver %s: rc=%s, %d replies for %d requests; stderr=%s'
                        % (self.name, p.returncode, len(out), len(lines), p.stderr[:500]))
        return out


# ------------------------------------------------------------------ context
class Ctx:
    """Collects what a check run did; decides the verdict."""

    def __init__(self, prop, tier, seed):
        self.prop = prop
        self.tier = tier
        self.seed = seed
        self.rng = Rng(seed, prop)
        self.t0 = time.time()
        self.evaluations = 0
        self.distinct = set()
        self.samples = []
        self.branches = {}
        self.failures = []     # concrete failing inputs on the implementation
        self.broken = []       # proof obligations / correspondences / ties that no longer check
        self.obligations = 0
        self.discharged = 0
        self.theorems = {}
        self.traces = 0
        self.exhaustive = False
        self.notes = []
        self.required_branches = []
        self.generated = {}
        self.rule = ''
        self.extra = {}

    # counters -----------------------------------------------------------
    def count(self, key, nontrivial=True, n=1):
        self.evaluations += n
        if nontrivial:
            self.distinct.add(key if isinstance(key, (str, int, tuple)) else repr(key))

    def branch(self, name, n=1):
        self.branches[name] = self.branches.get(name, 0) + n

    def sample(self, obj, limit=6):
        if len(self.samples) < limit:
            self.samples.append(obj)

    # findings -----------------------------------------------------------
    def fail(self, call, cls, case, detail):
        """A concrete input on which the implementation violates the property."""
        self.failures.append({'call': call, 'class': cls, 'case': case, 'detail': detail})

    def tie_broken(self, kind, name, detail, case=None):
        """kind: 'theorem' | 'correspondence' | 'tie' | 'audit'"""
        self.broken.append({'kind': kind, 'name': name, 'detail': str(detail)[:4000], 'case': case})

    def corr(self, name, case, impl, model, nontrivial=True, key=None):
        """Compare one canonicalised implementation output with the model's."""
        self.count(key if key is not None else (name, repr(case)), nontrivial)
        self.traces += 1
        if impl != model:
            self.branch('disagree:' + name)
            if sum(1 for b in self.broken if b['name'] == name) < 5:
                self.tie_broken('correspondence', name,
                                'impl=%s model=%s' % (str(impl)[:600], str(model)[:600]), case)
            return False
        return True


def load_known():
    """known_findings.json (committed; never written at run time) + per-property
    staging files findings/Cxx.json that are merged into it at integration"""
    with open(os.path.join(VERIF, 'known_findings.json')) as f:
        out = json.load(f)
    d = os.path.join(VERIF, 'findings')
    if os.path.isdir(d):
        for fn in sorted(os.listdir(d)):
            if fn.endswith('.json'):
                with open(os.path.join(d, fn)) as f:
                    out += json.load(f)
    return out


def json_default(o):
    try:
        import numpy as np
        if isinstance(o, np.integer):
            return int(o)
        if isinstance(o, np.floating):
            return float(o)
        if isinstance(o, np.ndarray):
            return o.tolist()
        if isinstance(o, complex):
            return [o.real, o.imag]
    except ImportError:
        pass
    return repr(o)


def write_json(path, obj):
    os.makedirs(os.path.dirname(path), exist_ok=True)
    tmp = path + '.tmp'
    with open(tmp, 'w') as f:
        json.dump(obj, f, indent=1, default=json_default, sort_keys=True)
        f.write('\n')
    os.replace(tmp, path)


def finish(ctx, module):
    """Classify, print the verdict lines, write evidence; returns exit code."""
    known = [k for k in load_known() if k['property'] == ctx.prop and k['status'] == 'known']
    violations = []
    known_hit = {}
    for f in ctx.failures:
        hit = None
        for k in known:
            m = k['match']
            if m.get('call') == f['call'] and m.get('class') == f['class']:
                hit = k
                break
        if hit is not None:
            known_hit.setdefault(hit['id'], (hit, f))
        else:
            violations.append(f)
    for kid, (k, f) in sorted(known_hit.items()):
        print('KNOWN-FINDING: property=%s %s [%s] e.g. %s'
              % (ctx.prop, k['what'], kid, json.dumps(f['case'], default=json_default)[:200]))
    rc = 0
    stamp = '%s_%s_seed%d' % (ctx.prop, ctx.tier, ctx.seed)
    if violations:
        # group by (call, class); one replay per group
        seen = set()
        for i, f in enumerate(violations):
            key = (f['call'], f['class'])
            if key in seen:
                continue
            seen.add(key)
            path = os.path.join('replays', '%s_%d.json' % (stamp, len(seen)))
            write_json(os.path.join(VERIF, path), {
                'property': ctx.prop, 'kind': 'input', 'seed': ctx.seed, 'tier': ctx.tier,
                'call': f['call'], 'class': f['class'], 'case': f['case'], 'detail': f['detail'],
                'broken': ctx.broken[:5],
                'how_to_replay': './check %s --replay %s' % (ctx.prop, path)})
            print('VIOLATION property=%s replay=%s' % (ctx.prop, path))
        rc = 1
    elif ctx.broken:
        path = os.path.join('replays', '%s_unproved.json' % stamp)
        write_json(os.path.join(VERIF, path), {
            'property': ctx.prop, 'kind': ctx.broken[0]['kind'], 'seed': ctx.seed, 'tier': ctx.tier,
            'no_longer_checks': [{'kind': b['kind'], 'name': b['name']} for b in ctx.broken],
            'broken': ctx.broken[:10],
            'note': 'the property is no longer shown to hold: the listed theorem / correspondence / '
                    'source tie does not check against the current /repo source, and the failing-input '
                    'search on model and implementation found no concrete counterexample',
            'how_to_replay': './check %s --tier %s' % (ctx.prop, ctx.tier)})
        print('VIOLATION property=%s replay=%s no-failing-input-found' % (ctx.prop, path))
        rc = 1
    missing = [b for b in ctx.required_branches if ctx.branches.get(b, 0) == 0]
    if rc == 0 and missing:
        print('INFRA: required branches not reached: %s' % missing)
        rc = 2
    cov = {
        'obligations': ctx.obligations,
        'discharged': ctx.discharged,
        'checker_cmd': 'cd lean && lake build %s && lake env lean <#print axioms of every theorem>' % module
                       + (' && lake env leanchecker %s' % module if ctx.tier == 'thorough' else ''),
        'trusted_base': TRUSTED_BASE + ctx.notes,
        'theorems': ctx.theorems,
        'generated_from_source': ctx.generated,
        'evaluations': ctx.evaluations,
        'distinct_nontrivial': len(ctx.distinct),
        'rule': ctx.rule,
        'samples': ctx.samples,
        'traces_validated_against_impl': ctx.traces,
        'branches': ctx.branches,
        'exhaustive': ctx.exhaustive,
        'known_findings_hit': sorted(known_hit),
        'broken': [{'kind': b['kind'], 'name': b['name']} for b in ctx.broken],
    }
    cov.update(ctx.extra)
    ev = {
        'property_id': ctx.prop, 'tier': ctx.tier, 'seed': ctx.seed, 'level': 'proof',
        'coverage': cov,
        'assumptions': ASSUMPTIONS,
        'wall_s': round(time.time() - ctx.t0, 2),
        'violations': len(violations) + (1 if (not violations and ctx.broken) else 0),
    }
    # (seeded-change experiments redirect their evidence so the committed files stay those of clean runs)
    write_json(os.path.join(os.environ.get('VERIF_EVIDENCE_DIR') or os.path.join(VERIF, 'evidence'), ctx.prop + '.json'), ev)
    return rc


TRUSTED_BASE = [
    'Lean 4.33 kernel; Mathlib v4.33 as compiled under /opt/veriftools/mathlib4',
    'axioms of every property theorem audited each run: subset of {propext, Classical.choice, Quot.sound}',
    'harness/translate.py (Python int ops on non-negative values <-> Lean Nat ops) for Generated/*',
    'correspondence harness (generators, canonicalisers, tolerances) ties hand-written models to the code',
]
ASSUMPTIONS = [
    'binary64 rounding is outside every theorem (theorems are over Nat/Int/Q/R/C)',
    'external numeric kernels (numpy.linalg, numpy.fft, scipy.special, matplotlib.path) are oracles with '
    'numerically checked contracts, not modelled code',
    'a behaviour not reached by the generators is not tied to the model',
]


def prove(ctx, module, generated=(), drivers=(), scratch=None):
    """Steps 2-4 of the pipeline: regenerate, build, audit."""
    from harness import translate
    if generated:
        res = translate.regenerate(REPO, LEAN_DIR, list(generated))
        ctx.generated = res
        for g in generated:
            if str(res.get(g, '')).startswith('error'):
                ctx.tie_broken('tie', 'translate:' + g, res[g])
    targets = [module] + list(drivers)
    ok, out = lake_build(targets)
    names = theorem_names(module)
    ctx.obligations = len(names)
    if not ok:
        # which theorems / files failed
        errs = re.findall(r'^error: (.*)$', out, re.M)
        ctx.tie_broken('theorem', module, 'lake build failed:\n' + '\n'.join(errs[:20]) + '\n' + out[-1500:])
        ctx.discharged = 0
        return False
    # scan what this property's theorems and drivers are built from (its import closure)
    roots = [module] + ['Drivers.' + d[4:].upper() for d in drivers if d.startswith('drv_')]
    hits = forbidden_scan(import_closure(roots))
    if hits:
        ctx.tie_broken('audit', 'forbidden-construct', '\n'.join(hits))
    res, missing, raw = audit_axioms(module, scratch)
    good = 0
    for n in names:
        ax = res.get(n)
        ctx.theorems[n] = ax
        if ax is None:
            ctx.tie_broken('audit', n, 'no #print axioms output: ' + raw[-500:])
        elif not set(ax) <= ALLOWED_AXIOMS:
            ctx.tie_broken('audit', n, 'axioms ' + ','.join(ax))
        else:
            good += 1
    ctx.discharged = good
    if any(b['kind'] == 'tie' for b in ctx.broken):
        # a generated module could not be re-emitted from the current source: the theorems were
        # only checked against the previous translation, which proves nothing about the code as it is
        ctx.discharged = 0
    if ctx.tier == 'thorough':
        rc, out = run(['lake', 'env', 'leanchecker', module], cwd=LEAN_DIR, timeout=3000)
        ctx.extra['leanchecker'] = 'ok' if rc == 0 else 'failed'
        if rc != 0:
            ctx.tie_broken('audit', 'leanchecker', out[-1500:])
    return good == len(names) and not hits
