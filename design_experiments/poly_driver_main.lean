import Scratch.Model
def main : IO Unit := do
  IO.println (M.plGeneral (3.76 : Float) 128.1 2.0)
  IO.println (M.whichDist (3.76 : Float) 128.1 (M.plGeneral (3.76 : Float) 128.1 2.0))
  IO.println (M.g2bWith [8,4,2,1] (M.b2g 65535))
