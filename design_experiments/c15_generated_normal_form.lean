namespace Generated
def xor (a b : Nat) : Nat := a ^^^ b
def binary2gray (num : Nat) : Nat := xor (num >>> 1) num
def gray2binary (num : Nat) : Nat :=
  let temp := xor num (num >>> 8)
  let temp := xor temp (temp >>> 4)
  let temp := xor temp (temp >>> 2)
  let temp := xor temp (temp >>> 1)
  temp
def int2bits_loop : Nat → Nat → Nat → Nat   -- fuel n bits
  | 0, _, bits => bits
  | fuel+1, n, bits => if n != 0 then int2bits_loop fuel (n >>> 1) (bits + 1) else bits
end Generated
def f (s x : Nat) : Nat := x ^^^ (x >>> s)
def g2bWith (shifts : List Nat) (n : Nat) : Nat := shifts.foldl (fun t s => f s t) n
theorem gen_g2b_normal_form : Generated.gray2binary = g2bWith [8,4,2,1] := by
  funext n; rfl
theorem gen_b2g_normal_form : Generated.binary2gray = fun n => (n >>> 1) ^^^ n := by
  funext n; rfl
#print axioms gen_g2b_normal_form
