def ct : Float := Float.ofBits 4656722019099139376
def Ts : Float := Float.ofBits 4562254508917369340
def infl : Float := Float.ofBits 4607182418800467768
theorem arange_len_exceeds : ((1.0 * Ts + ct) - ct) / (Ts * infl) > 1.0 := by decide +kernel
#print axioms arange_len_exceeds
#eval ((1.0 * Ts + ct) - ct) / (Ts * infl)
