import Mathlib.Algebra.BigOperators.Group.List.Basic
import Mathlib.Tactic

namespace R
inductive Outcome (R : Type) | ok (r : R) | skip
deriving Repr

structure St (R : Type) where
  rep : Nat
  acc : R
  skipped : Nat
  calls : Nat

variable {R : Type} [Mul R]

def guard (repMax : Nat) (keep : R → Nat → Bool) (s : St R) : Bool :=
  keep s.acc s.rep && decide (s.rep < repMax)

def stepOk (s : St R) (r : R) : St R := { s with rep := s.rep + 1, acc := s.acc * r, calls := s.calls + 1 }
def stepSkip (s : St R) : St R := { s with skipped := s.skipped + 1, calls := s.calls + 1 }

def loop (repMax : Nat) (keep : R → Nat → Bool) : St R → List (Outcome R) → St R
  | s, [] => s
  | s, o :: os =>
    if guard repMax keep s then
      match o with
      | .ok r => loop repMax keep (stepOk s r) os
      | .skip => loop repMax keep (stepSkip s) os
    else s

def oks : List (Outcome R) → List R
  | [] => []
  | .ok r :: os => r :: oks os
  | .skip :: os => oks os
end R

open R
variable {M : Type} [Monoid M]

/-- everything the property says about one variation, for every outcome list -/
theorem loop_spec (repMax : Nat) (keep : M → Nat → Bool) :
    ∀ (outs : List (Outcome M)) (s : St M),
      let f := loop repMax keep s outs
      let used := outs.take (f.calls - s.calls)
      s.calls ≤ f.calls ∧ f.calls - s.calls ≤ outs.length ∧
      f.acc = s.acc * (oks used).prod ∧
      f.rep = s.rep + (oks used).length ∧
      f.skipped + f.rep = s.skipped + s.rep + (f.calls - s.calls) ∧
      (guard repMax keep f = false ∨ f.calls - s.calls = outs.length)
  | [], s => by simp [loop, oks]
  | o :: os, s => by
    by_cases hg : guard repMax keep s = true
    · cases o with
      | ok r =>
        have ih := loop_spec repMax keep os (stepOk s r)
        simp only [loop, hg, if_true] at ih ⊢
        obtain ⟨h1, h2, h3, h4, h5, h6⟩ := ih
        simp only [stepOk] at h1 h2 h3 h4 h5 h6
        have e : (loop repMax keep (stepOk s r) os).calls - s.calls
               = ((loop repMax keep (stepOk s r) os).calls - (s.calls + 1)) + 1 := by
          simp only [stepOk]; omega
        refine ⟨by simp only [stepOk]; omega, by simp only [stepOk, List.length_cons]; omega, ?_, ?_, ?_, ?_⟩
        · rw [e, List.take_succ_cons]; simp only [oks, List.prod_cons, stepOk]; rw [h3, mul_assoc]
        · rw [e, List.take_succ_cons]; simp only [oks, List.length_cons, stepOk]; rw [h4]; omega
        · simp only [stepOk]; omega
        · rcases h6 with h6 | h6
          · left; exact h6
          · right; simp only [stepOk, List.length_cons]; omega
      | skip =>
        have ih := loop_spec repMax keep os (stepSkip s)
        simp only [loop, hg, if_true] at ih ⊢
        obtain ⟨h1, h2, h3, h4, h5, h6⟩ := ih
        simp only [stepSkip] at h1 h2 h3 h4 h5 h6
        have e : (loop repMax keep (stepSkip s) os).calls - s.calls
               = ((loop repMax keep (stepSkip s) os).calls - (s.calls + 1)) + 1 := by
          simp only [stepSkip]; omega
        refine ⟨by simp only [stepSkip]; omega, by simp only [stepSkip, List.length_cons]; omega, ?_, ?_, ?_, ?_⟩
        · rw [e, List.take_succ_cons]; simp only [oks, stepSkip]; exact h3
        · rw [e, List.take_succ_cons]; simp only [oks, stepSkip]; exact h4
        · simp only [stepSkip]; omega
        · rcases h6 with h6 | h6
          · left; exact h6
          · right; simp only [stepSkip, List.length_cons]; omega
    · have hg' : guard repMax keep s = false := by simpa using hg
      simp [loop, hg', oks]
#print axioms loop_spec
