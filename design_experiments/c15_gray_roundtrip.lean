import Mathlib.Tactic.Ring
import Mathlib.Tactic.Linarith
namespace G
def b2g (n : Nat) : Nat := (n >>> 1) ^^^ n
def f (s x : Nat) : Nat := x ^^^ (x >>> s)
def g2bWith (shifts : List Nat) (n : Nat) : Nat := shifts.foldl (fun t s => f s t) n

/-- xor of the bits i, i+s, ..., i+(k-1)s of x -/
def strideXor (x s : Nat) : Nat → Nat → Bool
  | 0, _ => false
  | k+1, i => (x.testBit i) ^^ strideXor x s k (i + s)

theorem testBit_f (s x i : Nat) : (f s x).testBit i = (x.testBit i ^^ x.testBit (i + s)) := by
  simp [f, Nat.testBit_xor, Nat.testBit_shiftRight, Nat.add_comm]

/-- splitting a stride-s run of length 2k into two interleaved stride-2s runs -/
theorem strideXor_double (x s : Nat) : ∀ k i,
    strideXor x s (2*k) i = (strideXor x (2*s) k i ^^ strideXor x (2*s) k (i+s))
  | 0, i => by simp [strideXor]
  | k+1, i => by
    have h := strideXor_double x s k (i + 2*s)
    have e : 2*(k+1) = (2*k) + 1 + 1 := by ring
    rw [e]
    simp only [strideXor]
    have e2 : i + s + s = i + 2*s := by ring
    have e3 : i + s + 2*s = i + 2*s + s := by ring
    rw [e2, h, e3]
    generalize x.testBit i = a
    generalize x.testBit (i+s) = b
    generalize strideXor x (2*s) k (i + 2*s) = c
    generalize strideXor x (2*s) k (i + 2*s + s) = d
    cases a <;> cases b <;> cases c <;> cases d <;> rfl

/-- one step: if y's bits are stride-2s runs of length k of x, f s y's are stride-s runs of length 2k -/
theorem step (x y s k : Nat) (h : ∀ i, y.testBit i = strideXor x (2*s) k i) :
    ∀ i, (f s y).testBit i = strideXor x s (2*k) i := by
  intro i
  rw [testBit_f, h, h, strideXor_double]

-- descending powers of two: [2^(m-1), ..., 2, 1]
def descPows : Nat → List Nat
  | 0 => []
  | m+1 => 2^m :: descPows m

theorem g2b_bits (x : Nat) : ∀ (m : Nat) (y : Nat) (k : Nat),
    (∀ i, y.testBit i = strideXor x (2^m) k i) →
    ∀ i, (g2bWith (descPows m) y).testBit i = strideXor x 1 (2^m * k) i
  | 0, y, k, h => by simpa [g2bWith, descPows] using h
  | m+1, y, k, h => by
    intro i
    simp only [g2bWith, descPows, List.foldl_cons]
    have h' : ∀ i, (f (2^m) y).testBit i = strideXor x (2^m) (2*k) i := by
      apply step; intro j; rw [h j]; congr 1; ring
    have := g2b_bits x m (f (2^m) y) (2*k) h' i
    simp only [g2bWith] at this
    rw [this]; congr 1; ring

theorem strideXor_one (x i : Nat) : strideXor x 1 1 i = x.testBit i := by simp [strideXor]
theorem strideXor_stride_one (x s i : Nat) : strideXor x s 1 i = x.testBit i := by simp [strideXor]

/-- bits of g2b (with m doubling shifts): xor of 2^m consecutive bits -/
theorem g2b_prefix (x m i : Nat) :
    (g2bWith (descPows m) x).testBit i = strideXor x 1 (2^m) i := by
  have := g2b_bits x m x 1 (fun j => (strideXor_stride_one x (2^m) j).symm) i
  simpa using this

theorem testBit_b2g (n i : Nat) : (b2g n).testBit i = (n.testBit (i+1) ^^ n.testBit i) := by
  simp [b2g, Nat.testBit_xor, Nat.testBit_shiftRight, Nat.add_comm]

/-- telescoping -/
theorem telescope (n : Nat) : ∀ k i, strideXor (b2g n) 1 k i = (n.testBit i ^^ n.testBit (i + k))
  | 0, i => by simp [strideXor]
  | k+1, i => by
    simp only [strideXor]
    rw [telescope n k (i+1), testBit_b2g]
    have : i + 1 + k = i + (k+1) := by ring
    rw [this]
    generalize n.testBit i = a; generalize n.testBit (i+1) = b; generalize n.testBit (i+(k+1)) = c
    cases a <;> cases b <;> cases c <;> rfl

theorem gray_roundtrip (m n : Nat) (hn : n < 2^(2^m)) : g2bWith (descPows m) (b2g n) = n := by
  apply Nat.eq_of_testBit_eq
  intro i
  rw [g2b_prefix, telescope]
  have : n.testBit (i + 2^m) = false := by
    apply Nat.testBit_lt_two_pow
    calc n < 2^(2^m) := hn
      _ ≤ 2^(i + 2^m) := Nat.pow_le_pow_right (by norm_num) (by omega)
  simp [this]
#print axioms gray_roundtrip
example : descPows 4 = [8,4,2,1] := by decide
example : g2bWith [8,4,2,1] (b2g 65536) ≠ 65536 := by decide
end G
