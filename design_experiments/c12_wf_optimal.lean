import Mathlib.Analysis.SpecialFunctions.Log.Basic
import Mathlib.Algebra.BigOperators.Fin
import Mathlib.Tactic

open Finset

theorem log_diff_le {x y : ℝ} (hx : 0 < x) (hy : 0 < y) : Real.log y - Real.log x ≤ (y - x) / x := by
  have h := Real.log_le_sub_one_of_pos (div_pos hy hx)
  rw [Real.log_div hy.ne' hx.ne'] at h
  have : y / x - 1 = (y - x) / x := by field_simp
  linarith [this ▸ h]

theorem wf_optimal {n : ℕ} (c p q : Fin n → ℝ) (lam : ℝ)
    (hc : ∀ i, 0 < c i) (hp : ∀ i, 0 ≤ p i) (hq : ∀ i, 0 ≤ q i)
    (hsum : ∑ i, q i = ∑ i, p i)
    (hact : ∀ i, 0 < p i → c i / (1 + c i * p i) = lam)
    (hinact : ∀ i, p i = 0 → c i ≤ lam) :
    ∑ i, Real.log (1 + c i * q i) ≤ ∑ i, Real.log (1 + c i * p i) := by
  have key : ∀ i, Real.log (1 + c i * q i) - Real.log (1 + c i * p i) ≤ lam * (q i - p i) := by
    intro i
    have hx : 0 < 1 + c i * p i := by have := mul_nonneg (hc i).le (hp i); linarith
    have hy : 0 < 1 + c i * q i := by have := mul_nonneg (hc i).le (hq i); linarith
    have h1 := log_diff_le hx hy
    have h2 : (1 + c i * q i - (1 + c i * p i)) / (1 + c i * p i) = c i / (1 + c i * p i) * (q i - p i) := by
      field_simp; ring
    rw [h2] at h1
    rcases (hp i).lt_or_eq with hpos | hzero
    · rw [hact i hpos] at h1; exact h1
    · have hz : p i = 0 := hzero.symm
      rw [hz] at h1 ⊢
      simp only [mul_zero, add_zero, div_one, sub_zero] at h1 ⊢
      calc _ ≤ c i * q i := h1
        _ ≤ lam * q i := mul_le_mul_of_nonneg_right (hinact i hz) (hq i)
  have : ∑ i, (Real.log (1 + c i * q i) - Real.log (1 + c i * p i)) ≤ ∑ i, lam * (q i - p i) :=
    sum_le_sum (fun i _ => key i)
  rw [sum_sub_distrib, ← mul_sum, sum_sub_distrib, hsum] at this
  simpa using this
#print axioms wf_optimal
