import Mathlib.Data.ZMod.Basic
import Mathlib.Algebra.BigOperators.Group.Finset.Basic
import Mathlib.Tactic

open Finset

variable {K : Type} [Field K] {N : ℕ} [NeZero N]

/-- character a ↦ ω^a on ZMod N -/
def chi (ω : K) (a : ZMod N) : K := ω ^ a.val

theorem chi_add (ω : K) (hω : ω ^ N = 1) (a b : ZMod N) : chi ω (a + b) = chi ω a * chi ω b := by
  unfold chi
  rw [ZMod.val_add, ← pow_add]
  conv_rhs => rw [← Nat.div_add_mod (a.val + b.val) N, pow_add, pow_mul, hω, one_pow, one_mul]

def dft (ω : K) (x : ZMod N → K) (k : ZMod N) : K := ∑ n, x n * chi ω (n * k)
def cconv (h x : ZMod N → K) (n : ZMod N) : K := ∑ j, h j * x (n - j)

theorem dft_cconv (ω : K) (hω : ω ^ N = 1) (h x : ZMod N → K) (k : ZMod N) :
    dft ω (cconv h x) k = dft ω h k * dft ω x k := by
  unfold dft cconv
  simp only [Finset.sum_mul, Finset.mul_sum]
  rw [Finset.sum_comm]
  conv_rhs => rw [Finset.sum_comm]
  apply Finset.sum_congr rfl; intro j _
  -- reindex n ↦ n - j
  rw [← Equiv.sum_comp (Equiv.addRight j) (fun n => h j * x (n - j) * chi ω (n * k))]
  apply Finset.sum_congr rfl; intro n _
  simp only [Equiv.coe_addRight, add_sub_cancel_right]
  rw [add_mul, chi_add ω hω]
  ring
#print axioms dft_cconv
