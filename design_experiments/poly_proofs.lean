import Scratch.Model
import Mathlib.Analysis.SpecialFunctions.Log.Base
import Mathlib.Analysis.SpecialFunctions.Pow.Real
namespace M
noncomputable instance : Transc ℝ := ⟨Real.logb 10, fun x => (10:ℝ) ^ x⟩

theorem whichDist_plGeneral (n C d : ℝ) (hn : n ≠ 0) (hd : 0 < d) :
    whichDist n C (plGeneral n C d) = d := by
  unfold whichDist plGeneral
  simp only [Transc.pow10, Transc.log10]
  have : ((((10:ℕ):ℝ) * n * Real.logb 10 d + C - C) / (((10:ℕ):ℝ) * n)) = Real.logb 10 d := by
    field_simp
    ring
  rw [this]
  exact Real.rpow_logb (by norm_num) (by norm_num) hd
#print axioms whichDist_plGeneral
end M
