def primes : List Nat := [2, 3, 5, 7, 11, 13, 17, 19, 23, 29, 31, 37, 41, 43, 47, 53, 59, 61, 67, 71,
    73, 79, 83, 89, 97, 101, 103, 107, 109, 113, 127, 131, 137, 139, 149, 151,
    157, 163, 167, 173, 179, 181, 191, 193, 197, 199, 211, 223, 227, 229, 233,
    239, 241, 251, 257, 263, 269, 271, 277, 281, 283, 293, 307, 311, 313, 317,
    331, 337, 347, 349, 353, 359, 367, 373, 379, 383, 389, 397, 401, 409, 419,
    421, 431, 433, 439, 443, 449, 457, 461, 463, 467, 479, 487, 491, 499, 503,
    509, 521, 523, 541, 547, 557, 563, 569, 571, 577, 587, 593, 599, 601, 607,
    613, 617, 619, 631, 641, 643, 647, 653, 659, 661, 673, 677, 683, 691, 701,
    709, 719, 727, 733, 739, 743, 751, 757, 761, 769, 773, 787, 797, 809, 811,
    821, 823, 827, 829, 839, 853, 857, 859, 863, 877, 881, 883, 887, 907, 911,
    919, 929, 937, 941, 947, 953, 967, 971, 977, 983, 991, 997, 1009]
def lookup (s : Nat) : Nat := ((primes.filter (· ≤ s)).getLast?).getD 0
def isPrimeB (n : Nat) : Bool := decide (2 ≤ n) && (List.range (n - 2)).all (fun d => n % (d + 2) != 0)
def largestPrimeLE (s : Nat) : Nat := ((List.range (s + 1)).filter isPrimeB).getLast?.getD 0
def okUpTo (lo hi : Nat) : Bool := (List.range (hi + 1 - lo)).all (fun i => lookup (lo + i) == largestPrimeLE (lo + i))
theorem t1 : okUpTo 25 1012 = true := by decide +kernel
theorem t2 : okUpTo 25 1200 = false := by decide +kernel
#print axioms t1
#eval (List.range 1201).find? (fun s => 25 ≤ s && lookup s != largestPrimeLE s)
