import Mathlib.Data.Matrix.Mul
import Mathlib.Algebra.BigOperators.Fin
import Mathlib.Data.Complex.Basic

namespace M
def Mat (α : Type) (m n : Nat) := Fin m → Fin n → α
variable {α : Type} [Add α] [Mul α] [Zero α]
def sumFin : (n : Nat) → (Fin n → α) → α
  | 0, _ => 0
  | n+1, f => sumFin n (fun i => f i.castSucc) + f (Fin.last n)
def matMul {m k n : Nat} (A : Mat α m k) (B : Mat α k n) : Mat α m n :=
  fun i j => sumFin k (fun l => A i l * B l j)
end M

theorem sumFin_eq {β : Type} [AddCommMonoid β] : ∀ (n : Nat) (f : Fin n → β), M.sumFin n f = ∑ i, f i
  | 0, f => by simp [M.sumFin]
  | n+1, f => by rw [M.sumFin, sumFin_eq n, Fin.sum_univ_castSucc]

theorem matMul_eq {m k n : Nat} (A : Matrix (Fin m) (Fin k) ℂ) (B : Matrix (Fin k) (Fin n) ℂ) :
    M.matMul (α := ℂ) A B = A * B := by
  funext i j
  simp [M.matMul, sumFin_eq, Matrix.mul_apply]
#print axioms matMul_eq

structure CF where (re im : Float)
instance : Add CF := ⟨fun a b => ⟨a.re+b.re, a.im+b.im⟩⟩
instance : Mul CF := ⟨fun a b => ⟨a.re*b.re - a.im*b.im, a.re*b.im + a.im*b.re⟩⟩
instance : Zero CF := ⟨⟨0,0⟩⟩
#eval (M.matMul (α := CF) (m:=1) (k:=2) (n:=1) (fun _ l => ⟨l.val.toFloat, 1⟩) (fun l _ => ⟨2, l.val.toFloat⟩) 0 0).re
