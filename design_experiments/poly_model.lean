namespace M
class Transc (α : Type) where
  log10 : α → α
  pow10 : α → α
instance : Transc Float := ⟨Float.log10, fun x => Float.exp (x * Float.log 10.0)⟩
instance : NatCast Float := ⟨Float.ofNat⟩

variable {α : Type} [Add α] [Sub α] [Mul α] [Div α] [NatCast α] [Transc α]

def plGeneral (n C d : α) : α := ((10 : Nat) : α) * n * Transc.log10 d + C
def whichDist (n C pl : α) : α := Transc.pow10 ((pl - C) / (((10 : Nat) : α) * n))

def b2g (n : Nat) : Nat := (n >>> 1) ^^^ n
def g2bWith (shifts : List Nat) (n : Nat) : Nat := shifts.foldl (fun t s => t ^^^ (t >>> s)) n
end M
