import Mathlib.LinearAlgebra.Matrix.PosDef
import Mathlib.Analysis.Complex.Order
import Mathlib.Tactic

open Matrix Finset
open scoped ComplexOrder

variable {n m : ℕ}

/-- u^H (A A^H) u = Σ_d (u^H a_d) * conj (u^H a_d) -/
theorem quad_form_gram (A : Matrix (Fin n) (Fin m) ℂ) (u : Fin n → ℂ) :
    star u ⬝ᵥ ((A * Aᴴ) *ᵥ u) = ∑ d, (star u ⬝ᵥ (fun i => A i d)) * star (star u ⬝ᵥ (fun i => A i d)) := by
  simp only [dotProduct, mulVec, Matrix.mul_apply, conjTranspose_apply, Pi.star_apply, star_sum, star_mul',
    star_star]
  simp only [Finset.mul_sum, Finset.sum_mul]
  rw [Finset.sum_comm]
  conv_lhs => arg 2; ext y; rw [Finset.sum_comm]
  rw [Finset.sum_comm]
  apply Finset.sum_congr rfl; intro d _
  apply Finset.sum_congr rfl; intro i _
  apply Finset.sum_congr rfl; intro j _
  ring
#print axioms quad_form_gram

theorem Q_psd (A : Matrix (Fin n) (Fin m) ℂ) : (A * Aᴴ).PosSemidef := posSemidef_self_mul_conjTranspose A
