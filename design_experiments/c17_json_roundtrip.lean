/-! C17 prototype: Python values, JSON trees, encoder/decoder hooks, round trip -/
namespace S

inductive Kind | int | float deriving DecidableEq, Repr

inductive PyVal where
  | none
  | bool (b : Bool)
  | int (i : Int)
  | float (num : Int) (den : Nat)
  | str (s : String)
  | npscalar (k : Kind) (width : Nat) (num : Int) (den : Nat)
  | list (xs : List PyVal)
  | set (xs : List PyVal)
  | ndarray (k : Kind) (width : Nat) (data : PyVal)
  | dict (kvs : List (String × PyVal))
  deriving Repr

inductive Json where
  | null | bool (b : Bool) | int (i : Int) | float (num : Int) (den : Nat) | str (s : String)
  | arr (xs : List Json) | obj (kvs : List (String × Json))
  deriving Repr

mutual
  def enc : PyVal → Json
    | .none => .null
    | .bool b => .bool b
    | .int i => .int i
    | .float n d => .float n d
    | .str s => .str s
    | .npscalar .int _ n _ => .int n
    | .npscalar .float _ n d => .float n d
    | .list xs => .arr (encList xs)
    | .set xs => .obj [("data", .arr (encList xs)), ("_is_set", .bool true)]
    | .ndarray _ w data => .obj [("data", enc data), ("dtype", .str (toString w)), ("_is_numpy_array", .bool true)]
    | .dict kvs => .obj (encKVs kvs)
  def encList : List PyVal → List Json
    | [] => []
    | x :: xs => enc x :: encList xs
  def encKVs : List (String × PyVal) → List (String × Json)
    | [] => []
    | (k, v) :: kvs => (k, enc v) :: encKVs kvs
end

def lookup (k : String) : List (String × PyVal) → Option PyVal
  | [] => Option.none
  | (k', v) :: kvs => if k' == k then some v else lookup k kvs

/-- the real `json_numpy_or_set_obj_hook`, applied to an already decoded dict -/
def objHook (d : List (String × PyVal)) : PyVal :=
  match lookup "_is_numpy_array" d, lookup "_is_set" d, lookup "data" d with
  | some (.bool true), _, some data => .ndarray .float 64 data
  | Option.none, some (.bool true), some (.list xs) => .set xs
  | _, _, _ => .dict d

mutual
  def dec : Json → PyVal
    | .null => .none
    | .bool b => .bool b
    | .int i => .int i
    | .float n d => .float n d
    | .str s => .str s
    | .arr xs => .list (decList xs)
    | .obj kvs => objHook (decKVs kvs)
  def decList : List Json → List PyVal
    | [] => []
    | x :: xs => dec x :: decList xs
  def decKVs : List (String × Json) → List (String × PyVal)
    | [] => []
    | (k, v) :: kvs => (k, dec v) :: decKVs kvs
end

mutual
  /-- dtype-insensitive normal form: what `==` on the classes can observe -/
  def norm : PyVal → PyVal
    | .npscalar .int _ n _ => .int n
    | .npscalar .float _ n d => .float n d
    | .list xs => .list (normList xs)
    | .set xs => .set (normList xs)
    | .ndarray _ _ data => .ndarray .float 64 (norm data)
    | .dict kvs => .dict (normKVs kvs)
    | v => v
  def normList : List PyVal → List PyVal
    | [] => []
    | x :: xs => norm x :: normList xs
  def normKVs : List (String × PyVal) → List (String × PyVal)
    | [] => []
    | (k, v) :: kvs => (k, norm v) :: normKVs kvs
end

def reserved (k : String) : Bool := k == "_is_set" || k == "_is_numpy_array"

mutual
  def wf : PyVal → Bool
    | .list xs => wfList xs
    | .set xs => wfList xs
    | .ndarray _ _ data => wf data
    | .dict kvs => wfKVs kvs
    | _ => true
  def wfList : List PyVal → Bool
    | [] => true
    | x :: xs => wf x && wfList xs
  def wfKVs : List (String × PyVal) → Bool
    | [] => true
    | (k, v) :: kvs => !reserved k && wf v && wfKVs kvs
end

theorem lookup_reserved_none (k : String) (hk : reserved k = true) :
    ∀ kvs : List (String × PyVal), wfKVs kvs = true → lookup k (decKVs (encKVs kvs)) = Option.none := by
  intro kvs
  induction kvs with
  | nil => intro _; simp [encKVs, decKVs, lookup]
  | cons kv kvs ih =>
    obtain ⟨k', v⟩ := kv
    intro h
    simp only [wfKVs, Bool.and_eq_true, Bool.not_eq_eq_eq_not, Bool.not_true] at h
    simp only [encKVs, decKVs, lookup]
    have : (k' == k) = false := by
      cases hkk : (k' == k)
      · rfl
      · have : k' = k := by simpa using hkk
        subst this; rw [hk] at h; simp at h
    simp [this, ih h.2]

mutual
  theorem dec_enc : ∀ v : PyVal, wf v = true → dec (enc v) = norm v
    | .none, _ => rfl
    | .bool _, _ => rfl
    | .int _, _ => rfl
    | .float _ _, _ => rfl
    | .str _, _ => rfl
    | .npscalar .int _ _ _, _ => rfl
    | .npscalar .float _ _ _, _ => rfl
    | .list xs, h => by
      simp only [enc, dec, norm]; rw [dec_enc_list xs (by simpa [wf] using h)]
    | .set xs, h => by
      simp only [enc, dec, decKVs, objHook, lookup, norm]
      rw [dec_enc_list xs (by simpa [wf] using h)]
      simp
    | .ndarray _ w data, h => by
      simp only [enc, dec, decKVs, objHook, lookup, norm]
      rw [dec_enc data (by simpa [wf] using h)]
      simp
    | .dict kvs, h => by
      have hw : wfKVs kvs = true := by simpa [wf] using h
      simp only [enc, dec, norm, objHook]
      rw [lookup_reserved_none "_is_numpy_array" (by decide) kvs hw,
          lookup_reserved_none "_is_set" (by decide) kvs hw]
      simp only []
      rw [dec_enc_kvs kvs hw]
  theorem dec_enc_list : ∀ xs : List PyVal, wfList xs = true → decList (encList xs) = normList xs
    | [], _ => rfl
    | x :: xs, h => by
      simp only [wfList, Bool.and_eq_true] at h
      simp only [encList, decList, normList]; rw [dec_enc x h.1, dec_enc_list xs h.2]
  theorem dec_enc_kvs : ∀ kvs : List (String × PyVal), wfKVs kvs = true → decKVs (encKVs kvs) = normKVs kvs
    | [], _ => rfl
    | (k, v) :: kvs, h => by
      simp only [wfKVs, Bool.and_eq_true] at h
      simp only [encKVs, decKVs, normKVs]; rw [dec_enc v h.1.2, dec_enc_kvs kvs h.2]
end
#print axioms dec_enc
#eval dec (enc (.dict [("a", .npscalar .float 32 1 2), ("s", .set [.int 1, .int 2]), ("arr", .ndarray .int 64 (.list [.int 1, .int 2]))]))
end S
